#!/usr/bin/env python3
"""Writes /verif/MANIFEST.json from the table below (kept in one place so it stays valid)."""
import json, os, subprocess

HERE = os.path.dirname(os.path.dirname(os.path.abspath(__file__)))

CHECKS = {
    "C19": dict(
        category="fault_enumeration",
        technique="resource-fault injection: the native stack budget (main thread / 2 MiB thread, debug / release build) is the injected limit; every grid cell runs in an isolated worker process and the exit status is the oracle",
        text="Grid of 52 scenarios (car/cdr/alist/vector/quote nesting x read, quote-evaluate, build, build and walk through the stepping API, keep live across a forced collection, equal?, write, drop; the list directions also: become garbage and be reclaimed, as built and after copying; closure and continuation chains; non-tail recursion; nested expressions) x depth 10^3/10^4/10^5 x two stack budgets x two build profiles = 624 cells, each executed in its own process; a cell passes if the worker completes or returns an error. Thorough runs the whole grid (exhaustive over the grid), quick a seeded sample of 160 cells plus every cell listed as a known finding. 232 cells abort on the pinned tree and are listed as known findings (removing the recursion from parser, compiler, converter, marker, equal?, printer and drop is not a small patch); any other aborting cell is a VIOLATION.",
        note="Outcomes near the stack limit were surveyed under three environment sizes; no cell flipped (c19_unstable_cells.json is empty). A 120 s watchdog per worker turns hangs into notes.",
        design="§5 C19",
    ),
    "C01": dict(
        category="exploration",
        technique="deterministic simulation of REPL sessions: seeded session histories (definitions, redefinitions, expressions) checked form by form against an executable reference CEK machine, with a fresh-VM twin under a permuted closure-slot order and inserted unrelated definitions",
        text="Seeded search over session histories of a typed program generator covering every core and derived form of the statement; each form's value, failure, user-error payload and output events are compared with an independent reference machine, and a fresh VM with another closure-slot order (the compiler's hash-set iteration order is behind hook H4) and unrelated definitions must observe the same. Collection schedules and slicing are composed on a fraction of runs. Sampling, not proof.",
        note="Trusted: the reference machine and the generator's well-definedness rules (unspecified values compare as wildcards; a run whose control flow depends on one is discarded and counted); operator evaluated after operands as the implementation does.",
        design="§5 C01, §4.1",
    ),
    "C02": dict(
        category="exploration",
        technique="deterministic simulation: scope skeletons (complete enumeration up to depth 2 over two names, seeded sampling to depth 4 over three) run under several seeded closure-slot layouts, collection schedules and slices, read log compared with the reference machine's environment model",
        text="Every binding combination of two names over one and two nested procedure levels x five closure-use modes is enumerated with canonical read/set/read actions; deeper and wider skeletons are sampled. Each skeleton is compiled under four closure-slot orders (the order comes from a randomised hash set in production; hook H4 makes it a seeded choice) with collections and slicing composed, and the logged (tag . value) reads, the results of later calls and the final globals must equal the reference machine's.",
        note="Trusted: the reference machine's environment model; hook H4 permutes exactly the two symbol sets the compiler derives slot order from.",
        design="§5 C02",
    ),
    "C04": dict(
        category="exploration",
        technique="deterministic simulation with a resource monitor: the stack pointer is sampled at every instruction boundary of loops of n tail calls (seeded compositions of tail contexts, arities, mutual recursion), with sparse collections and slices composed",
        text="Seeded search over loop shapes: 1-3 procedures calling each other in a cycle through chains of up to three of 23 tail contexts with caller/callee arities 0-4 with and without rest parameters; every family is run for n = 10, 10^3, 10^5 iterations and the stack-pointer high-water mark (hook H1/H2, sampled before every instruction) must be identical for all n, the stack capacity unchanged and the value (done n). No schedule is in the statement; the simulator contributes the monitor over simulated time and composes collections/slices on a quarter of the runs.",
        note="Intra-instruction stack peaks are not sampled (bounded by argument count). eval loops are capped at 2*10^4 iterations.",
        design="§5 C04",
    ),
    "C05": dict(
        category="exploration",
        technique="deterministic simulation of sessions with first-class continuations: seeded histories in which later top-level forms re-enter stored continuations, under collection schedules and slicing, checked against a reference CEK machine with first-class continuations",
        text="Sessions composed of 35 continuation templates (escape, re-entry from later forms, operand position with effects on both sides, tail capture, nested, inside map/for-each, mutation since capture, re-entry from loops, captures above 256 stack slots, re-entry from the capturing activation, two captures in one activation, locals assigned since capture, aggregates handed to k ...) with the continuation stored in a global, vector, pair, closure or list and re-entered 0-3 times; the value, failure and output of every form must equal the reference machine's. Half of the runs add forced collections (continuations are kept alive by the marker only), a third are sliced. Sampling.",
        note="Trusted: the reference machine (persistent frame list as continuation).",
        design="§5 C05",
    ),
    "C07": dict(
        category="fault_enumeration",
        technique="deterministic simulation with fault injection: a failure of each kind injected at every expression position of a chosen form in turn, bursts of up to 1000 consecutive failures; reference machine, never-failed twin VM and stack/heap monitors as oracles",
        text="For each generated session the form with most expression positions gets a failure injected at each position in turn (eight kinds rotating: unbound variable, type, arity, user error, non-procedure, compile-time syntax, read error, failure during macro expansion). The reference machine predicts every later form from the completed effects; a fresh twin VM in which the failing forms are escape variants must give the same later values, failures and stack-trace frames; the stack pointer must be at rest after every form; bursts k in {1,10,100,1000} x depth {0,3,50} x kind must not grow stack capacity or post-collection heap use beyond 10 failures and must leave stack traces equal to a fresh VM's.",
        note="Positions are enumerated per chosen form (capped at 24/64 per form, seeded subset beyond); programs are sampled. Trusted: reference machine; the escape-variant construction of the twin.",
        design="§5 C07",
    ),
    "C03": dict(
        category="exploration",
        technique="deterministic simulation: seeded search over collection schedules at VM instruction boundaries, differential twin with collections suppressed, independent heap audit after every collection",
        text="Seeded search over (program, collection schedule): generated sessions, allocation-heavy templates and deep live structures (car/vector/closure nesting up to 3000) run under every-k, every-instruction, Bernoulli, burst, production-policy and between-form schedules; every form's value, failure, output, stack trace and instruction count is compared with a twin VM in which no collection happens, and an independent reachability audit (safety I1, bookkeeping I3, intern table I4) runs after every collection. Evidence from sampling, not proof.",
        note="Trusted: hook H3 enters the VM's own run_gc (only its utilisation test is skipped); the auditor's own root enumeration and traversal; Suppress mode as 'no collection'.",
        design="§5 C03, §4.4",
    ),
    "C11": dict(
        category="fault_enumeration",
        technique="deterministic simulation of the terminal -> validator -> evaluator loop with input delivered in seeded chunks and the end of input injected at every token boundary (enumerated) and at seeded mid-token positions",
        text="For each generated sequence of quoted well-formed data the scanner's spans must equal the generator's token boundaries and satisfy the span invariants; the simulated front-end loop (chunks, validate, evaluate one datum, trimmed remaining text) must visit each datum once in order within #data + #chunks iterations; the end of input is injected after EVERY token of every text: complete data are consumed and the rest is reported Incomplete, never an error, and a complete datum is never Incomplete. A quarter of the runs feed token soup, random Unicode, mutations and mid-token cuts for totality, span invariants and progress. Every run executes on a freshly spawned thread after a seeded history of 0-3 earlier scans (some ending in a lexical error), so a scan's answer cannot depend on earlier scans unnoticed.",
        note="EOF positions are enumerated per text, texts are sampled. The two front-end loops are re-implemented in the harness after marwood-repl/src/main.rs and marwood-wasm/src/lib.rs (rustyline and JS cannot be linked); lex::scan, parse::parse, parse_text and Vm::eval_text are the real ones.",
        design="§5 C11",
    ),
    "C12": dict(
        category="exploration",
        technique="deterministic simulation: heap audit 'no unreachable cell stays allocated' after every scheduled collection, plus resource monitors over garbage loops (n vs 10n) under the production collection policy with randomised knobs",
        text="After every collection of the C03 schedule families the auditor checks that each allocated cell is reachable from the roots; garbage loops of 16 allocation kinds (incl. code redefining variables, procedures and keywords) x 4 live-set sizes x 10 loop drivers (named let, continuation back edge, mutual tail calls, apply, one-armed conditional, variadic, delay-force chain, closure handed from iteration to iteration, eval as back edge, ...), split into forms and slices with a randomised initial heap chunk, must hold no more heap capacity, stack capacity, cells in use, interned symbols or global slots after 10n iterations than after n. Sampling of programs and schedules.",
        note="Trusted: auditor traversal (conservative about jump offsets for I2); 'stops growing' is decided as not-larger at 10n than at n with n past warm-up (quick: 3e3/1e4, thorough: 1e4/1e5).",
        design="§5 C12",
    ),
    "C14": dict(
        category="exploration",
        technique="deterministic simulation of operation histories over an aliased object pool: every operation checked against a reference store with object identity, identity observed through unique-marker mutations, collections and slices composed",
        text="Seeded operation sequences (4-12 operations, each third one a unique-marker mutation through an alias) over a pool of proper/improper/tail-sharing lists, nested and empty vectors and an association list; arguments are chosen from the reference store's actual shapes with boundary indices (-1, 0, len-1, len, len+1, 2^31, 2^63); after every operation the result and the contents of all pool objects must equal the reference store's, an expected error must be an error that changed nothing, and a panic is a violation. A third of the runs add forced collections, a fifth are sliced.",
        note="Trusted: the reference machine's list/vector primitives written from R7RS 6.4/6.8. eq?/eqv? on pairs are not judged (not listed by C14).",
        design="§5 C14",
    ),
    "C15": dict(
        category="exploration",
        technique="deterministic simulation of operation histories over mutable multi-byte strings: every operation checked against a Vec<char> reference with object identity, unique-marker mutations through aliases, collections and slices composed",
        text="Seeded operation sequences (4-10 operations, each third one a unique-marker string-set! through an alias) over five mutable strings mixing 1-4 byte characters and two containers holding some of them; all listed string and character procedures with start/end/index arguments from {-1,0,1,len-1,len,len+1,2^63}, fill/set characters of every width, integer->char across the surrogate range and beyond 0x10FFFF; after every operation the result and all pool contents must equal the Vec<char> model; an abort of the host (allocation failure) is caught by crash sentinels and reported with its replay.",
        note="Trusted: Rust's Unicode tables for upper/lower-casing and the character predicates (both sides use them); case FOLDING in the reference comes from a table generated from CPython's unicodedata (independent of marwood's code), and the palette includes the characters whose folding is not their lower-case form (final sigma, long s, micro sign, sharp s, dotless i ...).",
        design="§5 C15",
    ),
    "C18": dict(
        category="exploration",
        technique="deterministic simulation: seeded collection schedules between two productions of a symbol name, name-equality model and intern-table audit",
        text="Pairs of production routes (14 routes, incl. quasiquote templates and continuations) over a palette of 60 names plus seeded random names (identifiers, peculiar, non-ASCII, empty, digit-initial, number-shaped, whitespace, delimiters, backslashes, several escapes), first symbol held in a global, vector, closure, on the stack, in a captured stack, in a container that is itself a list element, or dropped, with garbage and forced/production collections between the productions within one evaluation and across evaluations; eq? must equal name equality, both conversion laws must hold, and the intern table is audited (I4) after every collection; one run in 16 is a mass scenario (thousands of symbols each held by a container of its own while the heap grows). Two KNOWN FINDINGS (digit-initial names: literal vs string->symbol) are reported as such. Sampling.",
        note="Trusted: a symbol's name is the Rust string the generator wrote; literal routes only for names the pinned reader spells as one symbol token.",
        design="§5 C18",
    ),
    "C13": dict(
        category="fault_enumeration",
        technique="deterministic simulation: seeded slice-budget schedules (all constant budgets 1..64 enumerated per short program; random and adversarial cut sequences sampled) against an uninterrupted twin VM",
        text="Every constant budget 1..64 is enumerated for each short generated program and random/adversarial budget sequences are sampled for larger ones; each sliced run is compared form by form (value, failure, output, instruction count, final dump of globals) with an uninterrupted twin, and a resume that executes nothing is a progress violation. Sampling of programs, enumeration of the budget fault for the short ones.",
        note="Trusted: the twin VM running Vm::eval as the meaning of 'uninterrupted'; generator G01 (no continuations yet); hooks H1/H2 only count instructions.",
        design="§5 C13",
    ),
}

NOT_APPLICABLE = {
    "C06": "Pure function of (text, argument tuple): totality over all inputs has no schedule, clock, fault or history for a simulator to own; its one history clause (the VM accepts input after a failure) is decided under C07.",
    "C08": "Pure function of two exact numbers; nothing for a scheduler or fault injector to vary.",
    "C09": "Pure function of two or three numbers; as C08.",
    "C10": "Pure function of one datum (print then read); no collection, cut or fault is quantified over.",
    "C16": "Pure function of (number, radix).",
    "C17": "Macro definition and expansion are a compile-time datum-to-datum function with no instruction boundary, state or fault.",
    "C20": "Stateless pure function of (text, cursor).",
}

def main():
    hooks_commits = subprocess.run(
        ["git", "-C", "/repo", "log", "--format=%h %s", "--grep=^verif-hooks"],
        capture_output=True, text=True).stdout.strip().splitlines()
    checks = []
    for pid, c in sorted(CHECKS.items()):
        checks.append({
            "property_id": pid,
            "quick_cmd": f"./check {pid} --tier quick",
            "thorough_cmd": f"./check {pid} --tier thorough",
            "evidence_file": f"/verif/evidence/{pid}.json",
            "replay_cmd_template": "./check replay {path}",
            "engine": "marsim",
            "level_claimed": {"category": c["category"], "text": c["text"], "design_ref": c["design"]},
            "level_note": c["note"],
            "technique": c["technique"],
        })
    manifest = {
        "version": 1,
        "setup_cmd": "cd /verif/sim && CARGO_NET_OFFLINE=true cargo build --release --offline && CARGO_NET_OFFLINE=true cargo build --offline",
        "hooks": {
            "guard": "cargo feature verif-hooks of crate marwood (default off)",
            "enable": "the simulator crate /verif/sim depends on marwood by path (/repo/marwood) with features = [\"verif-hooks\"]",
            "baseline_off_cmd": "cd /repo && cargo test --workspace --no-fail-fast --offline",
            "source_commits": [l.split()[0] for l in hooks_commits],
            "add_only": False,
        },
        "engines": [{
            "name": "marsim",
            "path": "/verif/sim",
            "serves_properties": sorted(CHECKS),
            "kind_free_text": "deterministic simulator: seeded scheduler at every VM instruction boundary (forced collections, slice cuts), fault injection in program text and input stream, reference models and heap auditor as oracles, replay + minimisation",
        }],
        "checks": checks,
        "not_applicable": [{"property_id": k, "reason": v} for k, v in sorted(NOT_APPLICABLE.items())],
        "notes": "See DESIGN.md. Exit codes of every command: 0 clean, 1 VIOLATION, 2 harness error. known_findings.json lists repaired and unrepaired genuine defects.",
    }
    with open(os.path.join(HERE, "MANIFEST.json"), "w") as f:
        json.dump(manifest, f, indent=1)
        f.write("\n")

if __name__ == "__main__":
    main()
