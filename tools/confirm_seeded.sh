#!/bin/sh
# tools/confirm_seeded.sh <worktree> <seeded-name> <property> "<needs>"
# Confirms in the scratch worktree that a sub-agent's change (deliver/patch.diff + deliver/demo_*.rs)
# compiles, passes the existing suite, and that its demonstration fails with the change and passes
# without it; then stores it under /verif/seeded/<seeded-name>/.
set -u
WT="$1"; NAME="$2"; PROP="$3"; NEEDS="$4"
DIR="$(cd "$(dirname "$0")/.." && pwd)"
DEMO="$(ls "$WT"/deliver/demo*_*.rs | head -1)"
DEMONAME="$(basename "$DEMO" .rs)"
cd "$WT" || exit 2
git checkout -q -- . 2>/dev/null
rm -f marwood/tests/demo*_c*.rs
cp "$DEMO" "marwood/tests/$DEMONAME.rs"
echo "-- unmodified tree: demo must pass"
cargo test -p marwood --offline --test "$DEMONAME" >/tmp/confirm-a.txt 2>&1; a=$?
tail -3 /tmp/confirm-a.txt | grep "test result"
git apply deliver/patch.diff || { echo "patch does not apply"; exit 2; }
echo "-- with the change: existing suite must pass"
mv "marwood/tests/$DEMONAME.rs" /tmp/$DEMONAME.rs.aside
cargo test --workspace --offline >/tmp/confirm-b.txt 2>&1; b=$?
grep "test result" /tmp/confirm-b.txt | awk '{p+=$4; f+=$6} END {print "passed", p, "failed", f}'
mv /tmp/$DEMONAME.rs.aside "marwood/tests/$DEMONAME.rs"
echo "-- with the change: demo must fail"
cargo test -p marwood --offline --test "$DEMONAME" >/tmp/confirm-c.txt 2>&1; c=$?
tail -3 /tmp/confirm-c.txt | grep "test result"
echo "exit codes: unmodified-demo=$a suite-with-change=$b demo-with-change=$c"
if [ $a -eq 0 ] && [ $b -eq 0 ] && [ $c -ne 0 ]; then
  OUT="$DIR/seeded/$NAME"; mkdir -p "$OUT"
  cp deliver/patch.diff "$OUT/patch.diff"; cp "$DEMO" "$OUT/"; [ -f deliver/notes.md ] && cp deliver/notes.md "$OUT/notes.md"
  python3 - "$OUT" "$PROP" "$NEEDS" "$DEMONAME" <<'PY'
import json,sys
out,prop,needs,demo=sys.argv[1:5]
json.dump({"property":prop,"needs_to_manifest":needs,"demonstration":f"{demo}.rs (marwood/tests/; cargo test -p marwood --offline --test {demo})",
 "confirmed":{"unmodified_demo_passes":True,"suite_passes_with_change":True,"demo_fails_with_change":True,"how":"tools/confirm_seeded.sh in the sub-agent's scratch worktree"},
 "checks_run":[],"source":"independent sub-agent given only the property text and a scratch worktree"},open(out+"/meta.json","w"),indent=1)
PY
  echo "CONFIRMED -> $OUT"
else
  echo "NOT CONFIRMED"
fi
