#!/bin/sh
# tools/try_patch.sh <patch.diff> <ID> [<ID> ...]
# Applies a seeded change to /repo, runs the quick tier of the named checks against it (evidence goes
# to a scratch directory so that committed evidence is not disturbed), and restores /repo.
set -u
DIR="$(cd "$(dirname "$0")/.." && pwd)"
PATCH="$(realpath "$1")"; shift
if [ -n "$(git -C /repo status --porcelain)" ]; then echo "/repo is not clean"; exit 2; fi
git -C /repo apply "$PATCH" || { echo "patch does not apply"; exit 2; }
SCR="$(mktemp -d /tmp/verif-try.XXXXXX)"
cp "$DIR/known_findings.json" "$DIR/c19_unstable_cells.json" "$SCR/"; cp -r "$DIR/findings" "$SCR/findings"
cd "$DIR/sim" && cargo build --release --offline >"$SCR/build.log" 2>&1 || { echo "BUILD FAILED"; tail -5 "$SCR/build.log"; git -C /repo checkout -- .; exit 2; }
for id in "$@"; do
  if [ "$id" = C19 ]; then cargo build --offline >>"$SCR/build.log" 2>&1; fi
  start=$(date +%s)
  VERIF_DIR="$SCR" "$DIR/check" "$id" --tier "${VERIF_TIER:-quick}" >"$SCR/$id.out" 2>&1
  rc=$?
  end=$(date +%s)
  echo "== $id exit=$rc ($((end-start))s)"
  grep -E "^VIOLATION|signature=|HARNESS" "$SCR/$id.out" | grep -v "^KNOWN" | head -4
  if [ $rc -ne 0 ] && [ $rc -ne 1 ]; then tail -3 "$SCR/$id.out"; fi
done
git -C /repo checkout -- .
git -C /repo status --porcelain | head -3
echo "scratch: $SCR"
