#!/usr/bin/env python3
"""record_fix.py <property> <finding-id> <replay-file> <what failed>
Copies a replay that showed a genuine defect to findings/, checks that it is clean on the
(now repaired) tree, and appends a 'fixed' entry naming /repo's latest commit."""
import json, subprocess, sys, shutil, os
prop, fid, replay, what = sys.argv[1:5]
dst = f"findings/{fid}.json"
os.chdir("/verif")
if os.path.abspath(replay) != os.path.abspath(dst):
    shutil.copy(replay, dst)
r = subprocess.run(["./check", "replay", os.path.abspath(dst)], capture_output=True, text=True)
if "REPLAY-CLEAN" not in r.stdout:
    print(r.stdout); sys.exit("canary is not clean on the repaired tree")
commit = subprocess.run(["git", "-C", "/repo", "log", "--format=%h", "-1"], capture_output=True, text=True).stdout.strip()
k = json.load(open("known_findings.json"))
sig = json.load(open(dst))["signature"]
k["findings"] = [f for f in k["findings"] if f["id"] != fid]
k["findings"].append({"property": prop, "id": fid, "status": "fixed", "commit": commit, "signature": sig,
                      "canary": dst, "what": f"fixed: property={prop} {commit} {what}"})
json.dump(k, open("known_findings.json", "w"), indent=2); open("known_findings.json", "a").write("\n")
print("recorded", fid, commit)
