#!/bin/sh
# Runs every sensitivity mutant of /verif/mutants against the quick tier of the check(s) named in
# the table below and prints one line per (mutant, check).
DIR="$(cd "$(dirname "$0")/.." && pwd)"
while read -r name checks; do
  [ -z "$name" ] && continue
  f="$DIR/mutants/$name.patch"
  [ -f "$f" ] || { echo "$name: no patch (killed by the existing suite)"; continue; }
  out=$(timeout 1500 "$DIR/tools/try_patch.sh" "$f" $checks 2>&1)
  echo "$out" | awk -v n="$name" '/^== /{printf "%s %s %s %s\n", n, $2, $3, $4} /signature=/{sub(/.*signature=/,"    "); print}'
done <<TABLE
M01-gc-ep-not-a-root C03
M03-marker-skips-vector-elements C03
M05-free-keeps-intern-entry C18 C03
M06-string-symbol-backslash-raw C18
M07-if-alternate-not-tail C04
M11-slice-end-loses-acc C13
M12-error-arm-keeps-bp C07
M12b-error-arm-keeps-sp C07
M13-vector-copy-mut-offset C14
M15-remaining-from-span-end C11
M16-list-eof-unexpected-token C11
M19-equal-recurses-on-cdr C19
M22-or-evaluates-test-twice C01
M25-stack-not-cleared-after-success C12
M26-tcall-same-argc-copy-off-by-one C04 C01
M27-vararg-drops-saved-frame-order C01
TABLE
