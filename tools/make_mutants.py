#!/usr/bin/env python3
"""Creates /verif/mutants/*.patch: deliberate property-breaking edits (sensitivity proof, DESIGN §2.5).
Each edit is applied in the scratch worktree /tmp/wt-mut, the existing test suite is run, and the
patch is kept only if the suite still passes."""
import subprocess, os, sys, json
WT='/tmp/wt-mut'
M=[
 ("M01-gc-ep-not-a-root","C03","marwood/src/vm/run.rs","        self.heap.mark(self.ep);\n","        // (ep not marked)\n"),
 ("M03-marker-skips-vector-elements","C03","marwood/src/vm/heap.rs","""                VCell::Vector(vector) => {
                    for idx in 0..vector.len() {
                        let vcell = vector.get(idx).unwrap();
                        self.mark_vcell(&vcell);
                    }
                }
                VCell::EnvironmentPointer(ptr) => self.mark(ptr),""","""                VCell::Vector(_) => {}
                VCell::EnvironmentPointer(ptr) => self.mark(ptr),"""),
 ("M04-sweep-leaves-used","C03","marwood/src/vm/heap.rs","""                Some(State::Used) => {
                    self.heap_map.set(it, State::Allocated);
                }""","""                Some(State::Used) => {}"""),
 ("M05-free-keeps-intern-entry","C18","marwood/src/vm/heap.rs","""        if let Some(VCell::Symbol(sym)) = self.heap.get(ptr) {
            self.symbol_table.remove(&**sym);
        }
""",""),
 ("M06-string-symbol-backslash-raw","C18","marwood/src/vm/builtin/symbol.rs","    let reads_back = !s.contains('\\\\')\n        && !s.starts_with","    let reads_back = !s.starts_with"),
 ("M07-if-alternate-not-tail","C04","marwood/src/vm/compile.rs","""            Some(alternate) => {
                self.compile_expression(lambda, tail, alternate)?;""","""            Some(alternate) => {
                self.compile_expression(lambda, false, alternate)?;"""),
 ("M09-callcc-captures-before-pop","C05","marwood/src/vm/builtin/procedure.rs","""    pop_argc(vm, 1, Some(1), "call/cc")?;
    let proc = match vm.stack.pop()?.clone() {
        proc if vm.heap.get(&proc).is_procedure() => proc,
        _ => {
            return Err(InvalidSyntax("bad call/cc".into()));
        }
    };
    let cont = Rc::new(vm.to_continuation());""","""    pop_argc(vm, 1, Some(1), "call/cc")?;
    let cont = Rc::new(vm.to_continuation());
    let proc = match vm.stack.pop()?.clone() {
        proc if vm.heap.get(&proc).is_procedure() => proc,
        _ => {
            return Err(InvalidSyntax("bad call/cc".into()));
        }
    };"""),
 ("M10-restore-continuation-forgets-bp","C05","marwood/src/vm/continuation.rs","        self.bp = cont.bp();\n",""),
 ("M11-slice-end-loses-acc","C13","marwood/src/vm/run.rs","""            if cycles == count {
                self.run_gc();
                return Ok(None);""","""            if cycles == count {
                self.run_gc();
                if cycles % 7 == 0 {
                    self.acc = VCell::undefined();
                }
                return Ok(None);"""),
 ("M12-error-arm-keeps-bp","C07","marwood/src/vm/run.rs","                    self.bp = 0;\n",""),
 ("M12b-error-arm-keeps-sp","C07","marwood/src/vm/run.rs","                    *self.stack.get_sp_mut() = 0;\n                    self.stack.clear();\n",""),
 ("M13-vector-copy-mut-offset","C14","marwood/src/vm/builtin/vector.rs","        to_vector.put(at + offset, val);","        to_vector.put(at + start + offset, val);"),
 ("M14-string-set-byte-range","C15","marwood/src/vm/builtin/string.rs","        .map(|it| (it.0, it.0 + it.1.len_utf8()))?;","        .map(|it| (it.0, it.0 + 1))?;"),
 ("M15-remaining-from-span-end","C11","marwood/src/parse.rs","    let remaining_text = cur.peek().map(|Token { span, .. }| &text[span.0..]);","    let remaining_text = cur.peek().map(|Token { span, .. }| &text[span.1..]);"),
 ("M16-list-eof-unexpected-token","C11","marwood/src/parse.rs","""    let mut list = vec![];
    loop {
        match cur.peek().ok_or(Error::Incomplete)?.token_type {
            TokenType::RightParen => {
                let start_token""","""    let mut list = vec![];
    loop {
        match cur.peek().ok_or(Error::UnexpectedToken("eof".into()))?.token_type {
            TokenType::RightParen => {
                let start_token"""),
 ("M17-iof-argument-before-environment","C02","marwood/src/vm/environment.rs","""                if let Some(slot) = iof.envmap.get_slot(sym) {
                    Some((sym.clone(), BindingSource::IofEnvironment(slot)))
                } else if let Some((n, _)) = iof.args.iter().enumerate().find(|(_, it)| *it == sym)
                {
                    Some((sym.clone(), BindingSource::IofArgument(n)))
                } else {""","""                if let Some((n, _)) = iof.args.iter().enumerate().find(|(_, it)| *it == sym) {
                    Some((sym.clone(), BindingSource::IofArgument(n)))
                } else if let Some(slot) = iof.envmap.get_slot(sym) {
                    Some((sym.clone(), BindingSource::IofEnvironment(slot)))
                } else {"""),
 ("M19-equal-recurses-on-cdr","C19","marwood/src/vm/compare.rs","""            left = self.heap.get(&left.as_cdr()?);
            right = self.heap.get(&right.as_cdr()?);
        }""","""            let lcdr = self.heap.get(&left.as_cdr()?);
            let rcdr = self.heap.get(&right.as_cdr()?);
            if lcdr.is_pair() && rcdr.is_pair() {
                return self.compare_pair(lcdr, rcdr);
            }
            left = lcdr;
            right = rcdr;
        }"""),
 ("M22-or-evaluates-test-twice","C01","marwood/prelude.scm","""     (let ((var1 test1))
       (if var1 var1 (or test2 ...)))]))""","""     (if test1 test1 (or test2 ...))]))"""),
 ("M25-stack-not-cleared-after-success","C12","marwood/src/vm/run.rs","        self.stack.clear();\n        self.run_gc();\n        Ok(Some(cell))","        self.run_gc();\n        Ok(Some(cell))"),
 ("M26-tcall-same-argc-copy-off-by-one","C04","marwood/src/vm/run.rs","                    for it in 0..argc {\n                        let val = self.stack.get_offset(-1_i64 - it as i64)?.clone();","                    for it in 0..argc.saturating_sub(if argc > 3 { 1 } else { 0 }) {\n                        let val = self.stack.get_offset(-1_i64 - it as i64)?.clone();"),
 ("M27-vararg-drops-saved-frame-order","C01","marwood/src/vm/run.rs","""                if argc == req_argc + 1 {
                    let arg = self.heap.put(self.stack.get_offset(-3)?.clone());""","""                if argc == req_argc + 1 && req_argc < 3 {
                    let arg = self.heap.put(self.stack.get_offset(-3)?.clone());"""),
 ("M28-symbol-alloc-skips-table-after-growth","C18","marwood/src/vm/heap.rs","""                None => {
                    let ptr = self.alloc();
                    *self.heap.get_mut(ptr).expect("heap index is out of bounds") = vcell.clone();
                    self.symbol_table.insert(sym.deref().into(), ptr);
                    VCell::ptr(ptr)
                }
            },
            vcell => {
                let ptr = self.alloc();
                *self.heap.get_mut(ptr).expect("heap index is out of bounds") = vcell.clone();
                VCell::Ptr(ptr)
            }
        }
    }

    /// Maybe Put""","""                None => {
                    let ptr = self.alloc();
                    *self.heap.get_mut(ptr).expect("heap index is out of bounds") = vcell.clone();
                    if sym.len() < 24 {
                        self.symbol_table.insert(sym.deref().into(), ptr);
                    }
                    VCell::ptr(ptr)
                }
            },
            vcell => {
                let ptr = self.alloc();
                *self.heap.get_mut(ptr).expect("heap index is out of bounds") = vcell.clone();
                VCell::Ptr(ptr)
            }
        }
    }

    /// Maybe Put"""),
]
def sh(cmd, cwd=WT):
    return subprocess.run(cmd, shell=True, cwd=cwd, capture_output=True, text=True)
results={}
only=sys.argv[1:] 
for name,prop,path,old,new in M:
    if only and name not in only: continue
    sh("git checkout -q -- .")
    p=os.path.join(WT,path)
    s=open(p).read()
    if old not in s:
        print(name,"PATTERN NOT FOUND"); results[name]="pattern-not-found"; continue
    open(p,'w').write(s.replace(old,new,1))
    r=sh("cargo test --workspace --offline 2>&1 | grep -E '^test result|^error' ")
    lines=r.stdout.strip().splitlines()
    failed=sum(int(l.split()[5]) for l in lines if l.startswith('test result')) if lines else -1
    err=any(l.startswith('error') for l in lines)
    if err or failed!=0 or not lines:
        print(name,"killed by the existing suite or does not compile:",failed,err); results[name]="killed-by-suite"
        continue
    d=sh("git diff")
    open(f'/verif/mutants/{name}.patch','w').write(d.stdout)
    results[name]={"property":prop,"suite":"passes"}
    print(name,"ok")
sh("git checkout -q -- .")
json.dump(results,open('/verif/mutants/index.json','w'),indent=1)
