#!/bin/sh
# tools/sweep_seeded.sh [name-prefix]: applies every seeded change in turn and runs the check of its
# property against it (quick tier; C19 changes: thorough = the whole grid). Writes one line per change
# to seeded/SWEEP.txt: <name> <check> exit=<code> <first signature>. A change is "caught" if exit=1.
set -u
DIR="$(cd "$(dirname "$0")/.." && pwd)"
OUT="$DIR/seeded/SWEEP.txt"
: > "$OUT.tmp"
for d in "$DIR"/seeded/${1:-}*/; do
  name="$(basename "$d")"
  id="${name%%-*}"
  tier=quick; [ "$id" = C19 ] && tier=thorough
  res="$(VERIF_TIER=$tier "$DIR/tools/try_patch.sh" "$d/patch.diff" "$id" 2>&1)"
  code="$(echo "$res" | sed -n 's/^== [A-Z0-9]* exit=\([0-9]*\).*/\1/p' | head -1)"
  sig="$(echo "$res" | grep -m1 'signature=' | sed 's/.*signature=//')"
  [ -z "$sig" ] && sig="$(echo "$res" | grep -m1 -E 'VIOLATION|HARNESS|patch does not apply|BUILD FAILED' )"
  echo "$name $id exit=${code:-?} $sig" | tee -a "$OUT.tmp"
  rm -rf /tmp/verif-try.*
done
mv "$OUT.tmp" "$OUT"
