#!/bin/sh
# Determinism proof of the simulator (DESIGN §2.5): every check is executed for several VERIF_SEED
# values, each in separate processes at 1 and at 16 workers (and twice at 16), and the evidence
# files - every counter the runs produce: simulated instructions, collections fired, cuts, audits,
# distinct contexts, discards - are compared after removing wall-clock fields.
# usage: tools/selftest_determinism.sh [seeds=3] [scale_div=20] [checks...]
set -u
DIR="$(cd "$(dirname "$0")/.." && pwd)"
SEEDS="${1:-3}"; DIV="${2:-20}"
shift 2 2>/dev/null || true
CHECKS="${*:-C01 C02 C03 C04 C05 C07 C11 C12 C13 C14 C15 C18 C19}"
BIN="$DIR/sim/target/release/marsim"
cd "$DIR/sim" && cargo build --release --offline >/dev/null 2>&1 && cargo build --offline >/dev/null 2>&1 || { echo "HARNESS-ERROR build failed"; exit 2; }
TMP="$(mktemp -d /tmp/verif-selftest.XXXXXX)"
fail=0; total=0
strip() { python3 -c '
import json,sys
d=json.load(open(sys.argv[1]))
d.pop("wall_s",None); d["coverage"].pop("runs_per_hour",None)
print(json.dumps(d,sort_keys=True))' "$1"; }
for id in $CHECKS; do
  s=1
  while [ "$s" -le "$SEEDS" ]; do
    for cfg in 1:a 16:b 16:c; do
      w="${cfg%%:*}"; tag="${cfg##*:}"
      D="$TMP/$id-$s-$tag"; mkdir -p "$D"
      cp "$DIR/known_findings.json" "$DIR/c19_unstable_cells.json" "$D/" 2>/dev/null
      cp -r "$DIR/findings" "$D/findings"
      VERIF_DIR="$D" VERIF_SEED="$s" VERIF_WORKERS="$w" VERIF_SCALE_DIV="$DIV" "$BIN" check "$id" --tier quick >"$D/out.txt" 2>&1
      strip "$D/evidence/$id.json" >"$D/fingerprint.json" 2>/dev/null || echo "missing" >"$D/fingerprint.json"
    done
    total=$((total+1))
    if cmp -s "$TMP/$id-$s-a/fingerprint.json" "$TMP/$id-$s-b/fingerprint.json" && cmp -s "$TMP/$id-$s-b/fingerprint.json" "$TMP/$id-$s-c/fingerprint.json"; then
      echo "deterministic $id seed=$s (workers 1, 16, 16)"
    else
      echo "NONDETERMINISTIC $id seed=$s: see $TMP/$id-$s-*/fingerprint.json"; fail=$((fail+1))
    fi
    s=$((s+1))
  done
done
echo "selftest-determinism: $total (check, seed) pairs, $fail divergent"
if [ "$fail" -eq 0 ]; then rm -rf "$TMP"; exit 0; fi
exit 2
