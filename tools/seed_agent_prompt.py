# tools/seed_agent_prompt.py <ID>.<letter> ["focus hint"]  - prints the prompt given to an independent sub-agent that
# is asked for a property-breaking change (DESIGN 10.5). The sub-agent gets the property text and its own scratch
# worktree /tmp/wt12-<ID>.<letter> (git -C /repo worktree add --detach ...), nothing from /verif.
# tools/seed_agent_avoid.json lists the mechanisms earlier sub-agents already used, per property.
import sys,json,os
HERE=os.path.dirname(os.path.abspath(__file__))
tag=sys.argv[1]
pid=tag.split('.')[0]
focus=sys.argv[2] if len(sys.argv)>2 else ''
_p=[json.loads(l) for l in open(os.path.join(HERE,'..','properties.jsonl')) if l.strip()]
_p=[x for x in _p if x['id']==pid][0]
prop=f"{_p['id']}: {_p['title']}\n\n{_p['statement']}\n\nQuantifier: {_p['quantifier']['text']}\n"
av=json.load(open(os.path.join(HERE,'seed_agent_avoid.json')))
tried="\n".join("  - "+x for x in av["by"].get(pid,[]))
old=av["old"].get(pid,"")
print(f"""You are working in a scratch git worktree of the Rust project strtok/marwood (an embeddable Scheme R7RS implementation: lexer, parser, syntax-rules expander, bytecode compiler, stack VM with call/cc, mark-sweep GC) at /tmp/wt12-{tag}. Work ONLY inside /tmp/wt12-{tag}. Do not read, list or use anything under /verif, /root/.vp or /root/.claude, and do not touch /repo or other /tmp/wt* directories. There is no network; use `cargo ... --offline`. Do NOT use `git stash` (the stash is shared with other people's worktrees of the same repository): to get the unmodified tree back, use `git diff > /tmp/wt12-{tag}/my.diff && git apply -R /tmp/wt12-{tag}/my.diff`, and `git apply /tmp/wt12-{tag}/my.diff` to restore your change.

Here is a semantic property that the library is supposed to satisfy:

{prop}
Your task: produce a small, realistic source change to marwood (in your worktree, under marwood/src or marwood/prelude.scm) that BREAKS this property, such that
  1. the workspace still compiles,
  2. the existing test suite still passes: `cd /tmp/wt12-{tag} && cargo test --workspace --offline` must report no failures with your change applied (your own demonstration excluded),
  3. the breakage needs something specific to manifest: a particular interleaving or instruction boundary, a fault or failure at a particular point, a multi-step sequence of operations, an unusual input or size, or two cooperating sites that each look fine alone. It must NOT be something that ordinary simple use would expose at once (if nearly every program breaks, it is too blunt). Think of the kind of bug a maintainer could plausibly introduce in a refactoring or an "optimisation": an off-by-one at a boundary, a forgotten root or edge in the collector, a wrong condition on a rarely taken path, a missing reset on an error path, a stale cache, an index computed from the wrong base, a fast path that is wrong for one shape of input.
  4. The change goes in the default build (do not put it behind the cargo feature `verif-hooks`, and do not modify code that is only compiled under that feature).

{focus}

IMPORTANT - be original. Earlier people already produced the following changes for this property; do NOT reuse their mechanism or a close variant of it. Pick a different part of the code (a different opcode, builtin, compiler path, prelude macro, collector routine, lexer/parser path...) and a different kind of trigger:
{tried}
  - also already used: {old}

Also produce a demonstration: a Rust integration test (e.g. marwood/tests/demo12_{pid.lower()}.rs using the public API: marwood::vm::Vm, Vm::eval_text, Vm::prepare_eval / Vm::run_count, marwood::parse, marwood::lex ...) or a tiny example program, that FAILS with your change applied and PASSES on the unmodified worktree. Look at the existing tests under marwood/tests for how the API is used.

Verify all of this yourself by actually running the commands: (a) unmodified worktree: demo passes; (b) with your change: `cargo test --workspace --offline` passes for all pre-existing tests, and the demo fails.

Deliver these files in /tmp/wt12-{tag}/deliver/ :
  - patch.diff : `git diff` of the source change ONLY (not the demo file), applicable with `git apply` at the repository root;
  - the demo file (copy of your test/program) plus the exact command to run it;
  - notes.md : what the change is, why it breaks the property, and precisely what is needed for the breakage to manifest (which inputs / sizes / sequence / instruction boundary), and the outputs of your verification runs.
Leave the worktree with your change APPLIED and the demo file in place (marwood/tests/demo12_{pid.lower()}.rs). Keep the change small (a few lines). When done, reply with a short summary (what you changed, how it manifests, verification results).""")
