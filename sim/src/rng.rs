//! The one PRNG of the simulator: xoshiro256** seeded through SplitMix64.
//! Every choice of a run (knobs, workload, schedule, faults) is drawn from an
//! instance derived from (VERIF_SEED, property, run index); logging never draws.

#[derive(Clone, Debug)]
pub struct Rng {
    s: [u64; 4],
}

pub fn splitmix(state: &mut u64) -> u64 {
    *state = state.wrapping_add(0x9E37_79B9_7F4A_7C15);
    let mut z = *state;
    z = (z ^ (z >> 30)).wrapping_mul(0xBF58_476D_1CE4_E5B9);
    z = (z ^ (z >> 27)).wrapping_mul(0x94D0_49BB_1331_11EB);
    z ^ (z >> 31)
}

pub fn fnv64(bytes: &[u8]) -> u64 {
    let mut h: u64 = 0xcbf2_9ce4_8422_2325;
    for b in bytes {
        h ^= *b as u64;
        h = h.wrapping_mul(0x0000_0100_0000_01B3);
    }
    h
}

/// Seed of run `run` of property `prop` in a batch seeded with `verif_seed`.
pub fn mix(verif_seed: u64, prop: &str, run: u64) -> u64 {
    let mut st = verif_seed ^ fnv64(prop.as_bytes()).rotate_left(17);
    let a = splitmix(&mut st);
    let mut st2 = a ^ run.wrapping_mul(0xD6E8_FEB8_6659_FD93);
    splitmix(&mut st2)
}

impl Rng {
    pub fn new(seed: u64) -> Rng {
        let mut st = seed;
        let s = [
            splitmix(&mut st),
            splitmix(&mut st),
            splitmix(&mut st),
            splitmix(&mut st),
        ];
        Rng { s }
    }

    /// An independent stream derived from this one (consumes one draw).
    pub fn fork(&mut self) -> Rng {
        Rng::new(self.next_u64())
    }

    pub fn next_u64(&mut self) -> u64 {
        let result = self.s[1].wrapping_mul(5).rotate_left(7).wrapping_mul(9);
        let t = self.s[1] << 17;
        self.s[2] ^= self.s[0];
        self.s[3] ^= self.s[1];
        self.s[1] ^= self.s[2];
        self.s[0] ^= self.s[3];
        self.s[2] ^= t;
        self.s[3] = self.s[3].rotate_left(45);
        result
    }

    /// Uniform in 0..n (n > 0)
    pub fn below(&mut self, n: u64) -> u64 {
        debug_assert!(n > 0);
        // multiply-shift; bias is irrelevant here
        ((self.next_u64() as u128 * n as u128) >> 64) as u64
    }

    pub fn usize(&mut self, n: usize) -> usize {
        self.below(n as u64) as usize
    }

    /// Uniform in lo..=hi
    pub fn range(&mut self, lo: i64, hi: i64) -> i64 {
        debug_assert!(hi >= lo);
        lo + self.below((hi - lo + 1) as u64) as i64
    }

    pub fn chance(&mut self, num: u64, den: u64) -> bool {
        self.below(den) < num
    }

    pub fn f64(&mut self) -> f64 {
        (self.next_u64() >> 11) as f64 / (1u64 << 53) as f64
    }

    pub fn pick<'a, T>(&mut self, items: &'a [T]) -> &'a T {
        &items[self.usize(items.len())]
    }

    pub fn pick_str(&mut self, items: &[&'static str]) -> &'static str {
        items[self.usize(items.len())]
    }

    /// Weighted choice: returns the index
    pub fn weighted(&mut self, weights: &[u32]) -> usize {
        let total: u64 = weights.iter().map(|w| *w as u64).sum();
        let mut x = self.below(total.max(1));
        for (i, w) in weights.iter().enumerate() {
            if x < *w as u64 {
                return i;
            }
            x -= *w as u64;
        }
        weights.len() - 1
    }

    pub fn shuffle<T>(&mut self, items: &mut [T]) {
        for i in (1..items.len()).rev() {
            let j = self.usize(i + 1);
            items.swap(i, j);
        }
    }
}
