//! A replayable session case: forms + knobs + explicit schedule, with JSON round trip and a
//! generic minimiser (ddmin over forms and over schedule points).
use crate::kernel::{GcPlan, Knobs, SlicePlan};
use serde_json::{json, Value};

#[derive(Clone, Debug)]
pub struct Case {
    pub forms: Vec<String>,
    pub knobs: Knobs,
    pub gc: GcPlan,
    pub between_forms_gc: bool,
    pub slices: SlicePlan,
    pub sched_seed: u64,
    /// property specific extras
    pub extra: Value,
}

impl Case {
    pub fn new(forms: Vec<String>) -> Case {
        Case {
            forms,
            knobs: Knobs::default(),
            gc: GcPlan::None,
            between_forms_gc: false,
            slices: SlicePlan::None,
            sched_seed: 0,
            extra: Value::Null,
        }
    }

    pub fn to_json(&self) -> Value {
        json!({
            "session": self.forms,
            "knobs": {"slot_order_seed": self.knobs.slot_order_seed, "heap_chunk": self.knobs.heap_chunk},
            "schedule": {
                "gc": gc_to_json(&self.gc),
                "between_forms_gc": self.between_forms_gc,
                "slices": slices_to_json(&self.slices),
                "sched_seed": self.sched_seed,
            },
            "extra": self.extra,
        })
    }

    pub fn from_json(v: &Value) -> Result<Case, String> {
        let forms = v["session"]
            .as_array()
            .ok_or("case.session missing")?
            .iter()
            .map(|s| s.as_str().unwrap_or("").to_string())
            .collect();
        let knobs = Knobs {
            slot_order_seed: v["knobs"]["slot_order_seed"].as_u64().unwrap_or(0),
            heap_chunk: v["knobs"]["heap_chunk"].as_u64().unwrap_or(8192) as usize,
        };
        let s = &v["schedule"];
        Ok(Case {
            forms,
            knobs,
            gc: gc_from_json(&s["gc"])?,
            between_forms_gc: s["between_forms_gc"].as_bool().unwrap_or(false),
            slices: slices_from_json(&s["slices"])?,
            sched_seed: s["sched_seed"].as_u64().unwrap_or(0),
            extra: v["extra"].clone(),
        })
    }
}

pub fn gc_to_json(g: &GcPlan) -> Value {
    match g {
        GcPlan::None => json!({"kind": "none"}),
        GcPlan::EveryK(k) => json!({"kind": "every_k", "k": k}),
        GcPlan::Bernoulli(n, d) => json!({"kind": "bernoulli", "num": n, "den": d}),
        GcPlan::AfterInteresting(n, d) => json!({"kind": "after_interesting", "num": n, "den": d}),
        GcPlan::Explicit(points) => {
            let pts: Vec<Value> = points
                .iter()
                .map(|(f, b)| {
                    if *b == u64::MAX {
                        json!([f, "after"])
                    } else {
                        json!([f, b])
                    }
                })
                .collect();
            json!({"kind": "explicit", "gc_boundaries": pts})
        }
        GcPlan::Policy(c) => json!({"kind": "policy", "cadence": c}),
    }
}

pub fn gc_from_json(v: &Value) -> Result<GcPlan, String> {
    Ok(match v["kind"].as_str().unwrap_or("none") {
        "none" => GcPlan::None,
        "every_k" => GcPlan::EveryK(v["k"].as_u64().unwrap_or(1).max(1)),
        "bernoulli" => GcPlan::Bernoulli(v["num"].as_u64().unwrap_or(1), v["den"].as_u64().unwrap_or(2).max(1)),
        "after_interesting" => {
            GcPlan::AfterInteresting(v["num"].as_u64().unwrap_or(1), v["den"].as_u64().unwrap_or(2).max(1))
        }
        "explicit" => {
            let mut pts = vec![];
            for p in v["gc_boundaries"].as_array().ok_or("gc_boundaries missing")? {
                let f = p[0].as_u64().ok_or("bad point")? as usize;
                let b = match &p[1] {
                    Value::String(_) => u64::MAX,
                    x => x.as_u64().ok_or("bad point")?,
                };
                pts.push((f, b));
            }
            GcPlan::Explicit(pts)
        }
        "policy" => GcPlan::Policy(v["cadence"].as_u64().unwrap_or(64).max(1)),
        other => return Err(format!("unknown gc kind {}", other)),
    })
}

pub fn slices_to_json(s: &SlicePlan) -> Value {
    match s {
        SlicePlan::None => json!({"kind": "none"}),
        SlicePlan::Constant(b) => json!({"kind": "constant", "budget": b}),
        SlicePlan::Random(lo, hi) => json!({"kind": "random", "lo": lo, "hi": hi}),
        SlicePlan::Explicit(v) => json!({"kind": "explicit", "budgets": v}),
        SlicePlan::CutsAt(v) => json!({"kind": "cuts_at", "cuts": v}),
    }
}

pub fn slices_from_json(v: &Value) -> Result<SlicePlan, String> {
    Ok(match v["kind"].as_str().unwrap_or("none") {
        "none" => SlicePlan::None,
        "constant" => SlicePlan::Constant(v["budget"].as_u64().unwrap_or(1) as usize),
        "random" => SlicePlan::Random(
            v["lo"].as_u64().unwrap_or(1) as usize,
            v["hi"].as_u64().unwrap_or(100) as usize,
        ),
        "explicit" => SlicePlan::Explicit(
            v["budgets"]
                .as_array()
                .ok_or("budgets missing")?
                .iter()
                .map(|b| b.as_u64().unwrap_or(1) as usize)
                .collect(),
        ),
        "cuts_at" => SlicePlan::CutsAt(
            v["cuts"]
                .as_array()
                .ok_or("cuts missing")?
                .iter()
                .map(|f| {
                    f.as_array()
                        .map(|a| a.iter().map(|c| c.as_u64().unwrap_or(0)).collect())
                        .unwrap_or_default()
                })
                .collect(),
        ),
        other => return Err(format!("unknown slice kind {}", other)),
    })
}

/// ddmin-style reduction of a list: `test(candidate)` is true while the failure persists.
pub fn ddmin<T: Clone, F: FnMut(&[T]) -> bool>(items: Vec<T>, mut test: F, max_tests: usize) -> Vec<T> {
    let mut cur = items;
    let mut n = 2usize;
    let mut tests = 0usize;
    while cur.len() >= 2 && tests < max_tests {
        let chunk = (cur.len() + n - 1) / n;
        let mut reduced = false;
        let mut start = 0;
        while start < cur.len() {
            let end = (start + chunk).min(cur.len());
            // complement: remove cur[start..end]
            let mut cand: Vec<T> = cur[..start].to_vec();
            cand.extend_from_slice(&cur[end..]);
            tests += 1;
            if !cand.is_empty() && test(&cand) {
                cur = cand;
                n = (n - 1).max(2);
                reduced = true;
                break;
            }
            if tests >= max_tests {
                break;
            }
            start = end;
        }
        if !reduced {
            if n >= cur.len() {
                break;
            }
            n = (n * 2).min(cur.len());
        }
    }
    // final pass: single removals
    let mut i = 0;
    while i < cur.len() && cur.len() > 1 && tests < max_tests {
        let mut cand = cur.clone();
        cand.remove(i);
        tests += 1;
        if test(&cand) {
            cur = cand;
        } else {
            i += 1;
        }
    }
    cur
}

/// Minimise a case while `fails(case)` returns the same signature class.
/// Order: drop forms (schedule kept generative), then make the schedule explicit and ddmin its
/// points, then drop knobs to defaults.
pub fn minimise<F: FnMut(&Case) -> Option<(String, Vec<(usize, u64)>)>>(
    case: &Case,
    signature: &str,
    mut fails: F,
) -> Case {
    if !crate::report::minimise_on() {
        return case.clone();
    }
    let mut best = case.clone();
    let same = |s: &Option<(String, Vec<(usize, u64)>)>| s.as_ref().map(|x| x.0 == signature).unwrap_or(false);
    // 1. forms
    if !matches!(best.gc, GcPlan::Explicit(_)) && !matches!(best.slices, SlicePlan::CutsAt(_)) {
        let forms = best.forms.clone();
        let template = best.clone();
        let reduced = ddmin(
            forms,
            |cand| {
                let mut c = template.clone();
                c.forms = cand.to_vec();
                same(&fails(&c))
            },
            200,
        );
        best.forms = reduced;
    }
    // 2. schedule points
    if !matches!(best.gc, GcPlan::None | GcPlan::Explicit(_) | GcPlan::Policy(_)) {
        if let Some((sig, fired)) = fails(&best) {
            if sig == signature {
                let mut c = best.clone();
                c.gc = GcPlan::Explicit(fired.clone());
                c.between_forms_gc = false;
                if same(&fails(&c)) {
                    best = c;
                }
            }
        }
    }
    if let GcPlan::Explicit(points) = best.gc.clone() {
        let template = best.clone();
        let reduced = ddmin(
            points,
            |cand| {
                let mut c = template.clone();
                c.gc = GcPlan::Explicit(cand.to_vec());
                same(&fails(&c))
            },
            200,
        );
        // try with no collection at all
        let mut none = template.clone();
        none.gc = GcPlan::None;
        if same(&fails(&none)) {
            best.gc = GcPlan::None;
        } else {
            best.gc = GcPlan::Explicit(reduced);
        }
    }
    // 3. knobs
    if best.knobs.slot_order_seed != 0 {
        let mut c = best.clone();
        c.knobs.slot_order_seed = 0;
        if same(&fails(&c)) {
            best = c;
        }
    }
    if best.knobs.heap_chunk != 8192 {
        let mut c = best.clone();
        c.knobs.heap_chunk = 8192;
        if same(&fails(&c)) {
            best = c;
        }
    }
    if !matches!(best.slices, SlicePlan::None) {
        let mut c = best.clone();
        c.slices = SlicePlan::None;
        if same(&fails(&c)) {
            best = c;
        }
    }
    best
}
