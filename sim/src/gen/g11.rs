//! G11 — texts for the reader (DESIGN §5 C11): well-formed datum sequences rendered with
//! explicit token boundaries, plus token soup, random Unicode and mutations of valid texts.
use crate::kernel::Dv;
use crate::rng::Rng;

#[derive(Clone, Debug)]
pub struct Tok {
    pub text: String,
    pub class: &'static str,
}

#[derive(Clone, Debug)]
pub struct Rendered {
    pub text: String,
    /// byte span of every token
    pub spans: Vec<(usize, usize)>,
    pub classes: Vec<&'static str>,
    /// index of the top-level datum each token belongs to
    pub datum_of: Vec<usize>,
    /// nesting depth (open brackets / pending prefixes) after the token
    pub depth_after: Vec<usize>,
    /// expected values of the top-level data (each is written quoted)
    pub data: Vec<Dv>,
}

const SYMBOLS: [&str; 21] = [
    "a", "foo", "set-car!", "x->y", "+", "-", "...", "->x", "<=?", "λ", "日本", "𝒳s", "a.b", "k1", "!", "*star*",
    // tokens that start like a number and end in a multi-byte character
    "-λ", "+∞", "2π", "1+", "-x🐶",
];
const STRINGS: [(&str, &str); 12] = [
    ("\"tail\\\"\"", "tail\""),
    ("\"\\\"\"", "\""),
    ("\"a\\\\\"", "a\\"),
    ("\"\"", ""),
    ("\"abc\"", "abc"),
    ("\"a b\"", "a b"),
    ("\"q\\\"q\"", "q\"q"),
    ("\"back\\\\slash\"", "back\\slash"),
    ("\"nl\\n\"", "nl\n"),
    ("\"λ日🐶\"", "λ日🐶"),
    ("\"semi;colon (paren)\"", "semi;colon (paren)"),
    ("\"\\x41;\"", "A"),
];
const CHARS: [(&str, char); 9] = [
    ("#\\a", 'a'),
    ("#\\Z", 'Z'),
    ("#\\space", ' '),
    ("#\\newline", '\n'),
    ("#\\x41", 'A'),
    ("#\\(", '('),
    ("#\\λ", 'λ'),
    ("#\\🐶", '🐶'),
    ("#\\;", ';'),
];

struct Gen<'a> {
    rng: &'a mut Rng,
    toks: Vec<Tok>,
    depth: usize,
    depth_after: Vec<usize>,
}

impl<'a> Gen<'a> {
    fn push(&mut self, text: &str, class: &'static str) {
        self.toks.push(Tok {
            text: text.to_string(),
            class,
        });
        self.depth_after.push(self.depth);
    }

    fn atom(&mut self) -> Dv {
        match self.rng.below(12) {
            0 | 1 => {
                let i = self.rng.range(-1000, 100000);
                self.push(&format!("{}", i), "number");
                Dv::Int(i as i128)
            }
            2 => {
                // prefixed number: two tokens, one datum
                let (prefix, radix) = *self.rng.pick(&[("#x", 16u32), ("#b", 2), ("#o", 8), ("#d", 10), ("#e", 10)]);
                let v = self.rng.range(0, 255);
                let digits = match radix {
                    16 => format!("{:x}", v),
                    2 => format!("{:b}", v),
                    8 => format!("{:o}", v),
                    _ => format!("{}", v),
                };
                // optionally a second prefix for the exactness, before or after the radix prefix,
                // and a sign on the digits
                let exactness = match self.rng.below(4) {
                    0 if prefix != "#e" => Some("#e"),
                    1 if prefix != "#e" => Some("#i"),
                    _ => None,
                };
                let exactness_first = self.rng.chance(1, 2);
                let negative = self.rng.chance(1, 4) && v > 0;
                let digits = if negative { format!("-{}", digits) } else { digits };
                self.depth += 1;
                if let (Some(e), true) = (exactness, exactness_first) {
                    self.push(e, "number-prefix");
                }
                self.push(prefix, "number-prefix");
                if let (Some(e), false) = (exactness, exactness_first) {
                    self.push(e, "number-prefix");
                }
                self.depth -= 1;
                self.push(&digits, "number");
                let v = if negative { -(v as i128) } else { v as i128 };
                if exactness == Some("#i") {
                    Dv::Other(format!("float:{:?}", v as f64))
                } else {
                    Dv::Int(v)
                }
            }
            3 => {
                let whole = self.rng.range(0, 99);
                let frac = *self.rng.pick(&[5i64, 25, 125, 75]);
                let t = format!("{}.{}", whole, frac);
                self.push(&t, "number");
                Dv::Other(format!("float:{:?}", t.parse::<f64>().unwrap()))
            }
            4 => {
                let (n, d) = *self.rng.pick(&[(1i64, 2i64), (-3, 4), (7, 3), (22, 7)]);
                self.push(&format!("{}/{}", n, d), "number");
                Dv::Other(format!("rational:{}/{}", n, d))
            }
            5 => {
                let b = self.rng.chance(1, 2);
                self.push(if b { "#t" } else { "#f" }, "boolean");
                Dv::Bool(b)
            }
            6 | 7 => {
                let (t, c) = *self.rng.pick(&CHARS);
                self.push(t, "char");
                Dv::Char(c)
            }
            8 | 9 => {
                let (t, s) = *self.rng.pick(&STRINGS);
                self.push(t, "string");
                Dv::Str(s.to_string())
            }
            _ => {
                let s = *self.rng.pick(&SYMBOLS);
                self.push(s, "symbol");
                Dv::Sym(s.to_string())
            }
        }
    }

    fn datum(&mut self, budget: u32) -> Dv {
        if budget == 0 || self.rng.chance(2, 5) {
            return self.atom();
        }
        match self.rng.below(10) {
            0..=3 => {
                let (open, close) = *self.rng.pick(&[("(", ")"), ("(", ")"), ("[", "]"), ("{", "}")]);
                self.depth += 1;
                self.push(open, "open");
                let n = self.rng.usize(4);
                let mut items = vec![];
                for _ in 0..n {
                    items.push(self.datum(budget - 1));
                }
                let tail = if n > 0 && self.rng.chance(1, 5) {
                    self.push(".", "dot");
                    Some(self.datum(budget - 1))
                } else {
                    None
                };
                self.depth -= 1;
                self.push(close, "close");
                match tail {
                    Some(t) => Dv::list_with_tail(items, t),
                    None => Dv::list(items),
                }
            }
            4 | 5 => {
                self.depth += 1;
                self.push("#(", "vector-open");
                let n = self.rng.usize(4);
                let items = (0..n).map(|_| self.datum(budget - 1)).collect();
                self.depth -= 1;
                self.push(")", "close");
                Dv::Vector(items)
            }
            _ => {
                let (t, name) = *self.rng.pick(&[("'", "quote"), ("`", "quasiquote"), (",", "unquote")]);
                self.depth += 1;
                self.push(t, "prefix");
                self.depth -= 1;
                let inner = self.datum(budget - 1);
                Dv::list(vec![Dv::Sym(name.to_string()), inner])
            }
        }
    }
}

fn needs_space(a: &Tok, b: &Tok) -> bool {
    let atomish = |c: &str| matches!(c, "number" | "boolean" | "char" | "string" | "symbol" | "dot");
    // two adjacent atoms must be separated; so must an atom and a following prefix/hash token
    if atomish(a.class) && (atomish(b.class) || matches!(b.class, "number-prefix" | "vector-open")) {
        return true;
    }
    // a prefix token binds to what follows; `#x` must be directly followed by its digits
    false
}

pub fn wellformed(rng: &mut Rng) -> Rendered {
    let n = 1 + rng.usize(5);
    let mut g = Gen {
        rng,
        toks: vec![],
        depth: 0,
        depth_after: vec![],
    };
    let mut datum_of = vec![];
    let mut data = vec![];
    for d in 0..n {
        let before = g.toks.len();
        // each datum is written quoted so that evaluation returns it
        g.depth += 1;
        g.push("'", "prefix");
        g.depth -= 1;
        let v = g.datum(3);
        data.push(v);
        for _ in before..g.toks.len() {
            datum_of.push(d);
        }
    }
    let toks = g.toks.clone();
    let depth_after = g.depth_after.clone();
    let rng = g.rng;
    let mut text = String::new();
    let mut spans = vec![];
    // leading whitespace / comment
    if rng.chance(1, 4) {
        text.push_str(*rng.pick(&[" ", "\n", "; leading comment\n", "\t "]));
    }
    for (i, t) in toks.iter().enumerate() {
        if i > 0 {
            let must = needs_space(&toks[i - 1], t) || toks[i - 1].class == "number-prefix" && false;
            let glue_forbidden = toks[i - 1].class == "number-prefix";
            if glue_forbidden {
                // nothing between #x and its digits
            } else if must || rng.chance(1, 2) {
                let ws = match rng.below(10) {
                    0 => "\n",
                    1 => "  ",
                    2 => "\t",
                    3 => " ; a comment (with parens) \"and quotes\n",
                    4 => "\n;; another\n",
                    _ => " ",
                };
                text.push_str(ws);
            }
        }
        let start = text.len();
        text.push_str(&t.text);
        spans.push((start, text.len()));
    }
    if rng.chance(1, 3) {
        text.push_str(*rng.pick(&[" ", "\n", " ; trailing comment", "\n\n"]));
    }
    Rendered {
        text,
        spans,
        classes: toks.iter().map(|t| t.class).collect(),
        datum_of,
        depth_after,
        data,
    }
}

const SOUP: [&str; 64] = [
    "(", ")", "[", "]", "{", "}", "#(", "'", "`", ",", ".", "..", "...", "#t", "#f", "#\\", "#\\a", "#\\space", "#\\x", "#x", "#e", "#",
    "\"", "\"abc\"", "\"\\", ";", "; c\n", "1", "-", "+5", "1/2", "a", "λ", "\\",
    // number-shaped and hash-shaped fragments: radix digits that start with a letter, fractions,
    // exponents, upper case, long booleans, other prefixes, characters by scalar value
    "a.8", "ff", "ff.4", "1e3", "1E3", "-F", "1A", ".AB", "+E", "e", "#i", "#b", "#o", "#d", "#X", "#E", "#true", "#false", "#tr", "#fa",
    "#\\x41", "#\\x", "#\\λ", "10", "-1", "/", "|", "#;",
    // a byte order mark and a zero-width space: ordinary identifier characters for this reader
    "\u{feff}", "\u{200b}",
];

pub fn token_soup(rng: &mut Rng) -> String {
    let n = rng.usize(12);
    let mut s = String::new();
    // texts saved by some editors begin with a byte order mark
    if rng.chance(1, 12) {
        s.push('\u{feff}');
    }
    for _ in 0..n {
        s.push_str(*rng.pick(&SOUP));
        if rng.chance(1, 2) {
            s.push_str(*rng.pick(&[" ", "\n", "", "\t"]));
        }
    }
    s
}

pub fn random_unicode(rng: &mut Rng) -> String {
    let n = rng.usize(16);
    (0..n)
        .map(|_| match rng.below(6) {
            0 => char::from_u32(rng.below(0x80) as u32).unwrap_or(' '),
            1 => char::from_u32(0x80 + rng.below(0x700) as u32).unwrap_or('é'),
            2 => char::from_u32(0x800 + rng.below(0xD000 - 0x800) as u32).unwrap_or('日'),
            3 => char::from_u32(0x10000 + rng.below(0x10000) as u32).unwrap_or('𝒳'),
            4 => *rng.pick(&['(', ')', '"', '#', '\\', ';', '\'', '.', ' ', '\n']),
            _ => *rng.pick(&['a', '1', '-', '+', 'x', 'e']),
        })
        .collect()
}

/// delete / duplicate / swap a character range, splice junk
pub fn mutate(rng: &mut Rng, text: &str) -> String {
    let chars: Vec<char> = text.chars().collect();
    if chars.is_empty() {
        return random_unicode(rng);
    }
    let i = rng.usize(chars.len());
    let j = (i + rng.usize(4)).min(chars.len());
    let mut out: Vec<char> = vec![];
    match rng.below(4) {
        0 => {
            out.extend(&chars[..i]);
            out.extend(&chars[j..]);
        }
        1 => {
            out.extend(&chars[..j]);
            out.extend(&chars[i..]);
        }
        2 => {
            out.extend(&chars[..i]);
            out.extend(random_unicode(rng).chars());
            out.extend(&chars[i..]);
        }
        _ => {
            out.extend(&chars[..i]);
            out.push(*rng.pick(&['(', ')', '"', '#', '.', '\'']));
            out.extend(&chars[j..]);
        }
    }
    out.into_iter().collect()
}
