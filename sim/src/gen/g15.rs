//! G15 — operation sequences over mutable strings mixing 1-, 2-, 3- and 4-byte characters
//! (DESIGN §5 C15). The reference machine runs online to supply actual lengths.
use crate::refscheme::machine::{Machine, RefOutcome};
use crate::refscheme::value::V;
use crate::rng::Rng;
use crate::sx::{read_one, write_char, write_string, Sx};

pub const NSTR: usize = 5;

/// palette: 1- to 4-byte characters; case pairs of equal and of different UTF-8 width; characters
/// whose case folding is not their lower-case form (final sigma, long s, micro sign, beta
/// symbol), that fold to two characters (sharp s, ff ligature), or that do not fold at all
/// although their case mappings suggest it (dotless i, dotted capital I)
const CHARS: [char; 60] = [
    'a', 'Z', 'm', '0', '9', ' ', '~', '(', // 1 byte
    'é', 'É', 'λ', 'Λ', 'ñ', 'Ж', 'ж', 'ö', // 2 bytes
    '日', '本', '€', '★', 'ᄀ', // 3 bytes
    '𝒳', '🐶', '𐐷', '𐐏', '𝟘', // 4 bytes
    'b', 'B', 'z', 'A',
    // case pairs whose two forms have different UTF-8 widths
    '\u{212A}', 'k', '\u{212B}', 'å', '\u{2126}', 'ω', '\u{023A}', '\u{2C65}',
    // folding differs from lower-casing
    'σ', 'ς', 'Σ', 's', 'S', 'ſ', 'μ', 'µ', 'β', 'ϐ', 'ß', 'ẞ', 'ﬀ', 'f', 'i', 'I', 'ı', 'İ',
    // characters that a string literal has to escape
    '"', '\\', '\n', '\t',
];

/// characters that are case variants of one another (used to build interesting operands only;
/// the oracle is the reference machine's Unicode table)
const FOLD_CLASSES: [&[char]; 12] = [
    &['σ', 'ς', 'Σ'],
    &['s', 'S', 'ſ'],
    &['μ', 'µ', 'Μ'],
    &['β', 'ϐ', 'Β'],
    &['k', 'K', '\u{212A}'],
    &['å', 'Å', '\u{212B}'],
    &['ω', 'Ω', '\u{2126}'],
    &['ß', 'ẞ'],
    &['i', 'I', 'ı', 'İ'],
    &['a', 'A'],
    &['é', 'É'],
    &['\u{023A}', '\u{2C65}'],
];

const MARKERS: [char; 12] = ['①', '②', '③', '④', '⑤', '⑥', '⑦', '⑧', '⑨', '⑩', '⑪', '⑫'];

pub struct G15<'a> {
    rng: &'a mut Rng,
    model: Machine,
    pub forms: Vec<Sx>,
    marker: usize,
    pub width_changes: usize,
    pub ops: Vec<&'static str>,
}

fn chr_lit(c: char) -> String {
    let mut s = String::new();
    write_char(c, &mut s);
    s
}

fn str_lit(s: &str) -> String {
    let mut out = String::new();
    write_string(s, &mut out);
    out
}

impl<'a> G15<'a> {
    pub fn new(rng: &'a mut Rng) -> G15<'a> {
        G15 {
            rng,
            model: Machine::new(),
            forms: vec![],
            marker: 0,
            width_changes: 0,
            ops: vec![],
        }
    }

    fn emit(&mut self, text: &str) -> RefOutcome {
        let sx = read_one(text).unwrap_or_else(|e| panic!("g15 text does not read: {}: {}", e, text));
        let r = self.model.run_form(&sx);
        self.forms.push(sx);
        r.outcome
    }

    fn rand_char(&mut self) -> char {
        CHARS[self.rng.usize(CHARS.len())]
    }

    /// the text with every character replaced by a random member of its case class
    fn fold_variant(&mut self, t: &str) -> String {
        let mut out = String::new();
        for c in t.chars() {
            match FOLD_CLASSES.iter().find(|cl| cl.contains(&c)) {
                Some(cl) => {
                    if c == 'ß' && self.rng.chance(1, 3) {
                        out.push_str("ss");
                    } else {
                        out.push(cl[self.rng.usize(cl.len())]);
                    }
                }
                None => out.push(c),
            }
        }
        out
    }

    /// a character near a boundary of the Unicode properties the predicates test, or any scalar
    fn property_char(&mut self) -> char {
        const EDGE: [u32; 44] = [
            0x08, 0x09, 0x0A, 0x0B, 0x0C, 0x0D, 0x0E, 0x1C, 0x1F, 0x20, 0x21, 0x2F, 0x30, 0x39, 0x3A, 0x40, 0x41, 0x5A, 0x5B, 0x60,
            0x61, 0x7A, 0x7B, 0x7F, 0x85, 0xA0, 0xAA, 0xB2, 0xB5, 0xBD, 0xC0, 0xD7, 0xDF, 0x660, 0x1680, 0x2000, 0x200A, 0x200B,
            0x2028, 0x202F, 0x205F, 0x2160, 0x3000, 0xFF11,
        ];
        loop {
            let u = if self.rng.chance(2, 3) {
                EDGE[self.rng.usize(EDGE.len())]
            } else if self.rng.chance(1, 2) {
                self.rng.range(0, 0x250) as u32
            } else {
                self.rng.range(0, 0x10FFFF) as u32
            };
            if let Some(c) = char::from_u32(u) {
                return c;
            }
        }
    }

    fn rand_text(&mut self, max: usize) -> String {
        let n = self.rng.usize(max + 1);
        (0..n).map(|_| self.rand_char()).collect()
    }

    fn dump(&mut self) {
        let names: Vec<String> = (0..NSTR).map(|i| format!("s{}", i)).collect();
        self.emit(&format!("(list {} h0 h1)", names.join(" ")));
    }

    fn model_string(&self, name: &str) -> Option<Vec<char>> {
        match self.model.globals.get(name).map(|l| l.borrow().clone()) {
            Some(V::Str(s)) => Some(s.s.borrow().clone()),
            _ => None,
        }
    }

    fn init(&mut self) {
        for i in 0..NSTR {
            let t = if i == 3 { String::new() } else { self.rand_text(6) };
            // string-copy of a literal: a fresh mutable string
            self.emit(&format!("(define s{} (string-copy {}))", i, str_lit(&t)));
        }
        // sometimes one string is long, with a length next to a power of two
        if self.rng.chance(1, 6) {
            const SIZES: [usize; 12] = [15, 16, 17, 31, 32, 33, 63, 64, 65, 127, 128, 129];
            let k = SIZES[self.rng.usize(SIZES.len())];
            let t: String = (0..k).map(|_| self.rand_char()).collect();
            self.emit(&format!("(define s4 (string-copy {}))", str_lit(&t)));
        }
        self.emit("(define h0 (list s0 s1 'x))");
        self.emit("(define h1 (vector s2 s0 42))");
        self.dump();
    }

    /// an expression denoting a mutable pool string, its model content, and whether it is an alias
    fn mutable_string(&mut self) -> (String, Vec<char>, bool) {
        match self.rng.below(8) {
            0 => ("(car h0)".into(), self.alias_content("(car h0)"), true),
            1 => ("(car (cdr h0))".into(), self.alias_content("(car (cdr h0))"), true),
            2 => ("(vector-ref h1 0)".into(), self.alias_content("(vector-ref h1 0)"), true),
            3 => ("(vector-ref h1 1)".into(), self.alias_content("(vector-ref h1 1)"), true),
            _ => {
                let n = format!("s{}", self.rng.usize(NSTR));
                let c = self.model_string(&n).unwrap_or_default();
                (n, c, false)
            }
        }
    }

    fn alias_content(&mut self, expr: &str) -> Vec<char> {
        let sx = read_one(&format!("(define %scratch {})", expr)).unwrap();
        self.model.run_form(&sx);
        match self.model.globals.get("%scratch").map(|l| l.borrow().clone()) {
            Some(V::Str(s)) => s.s.borrow().clone(),
            _ => vec![],
        }
    }

    /// any string-valued argument (pool string, alias, literal)
    fn string_arg(&mut self) -> (String, usize) {
        if self.rng.chance(1, 4) {
            let t = self.rand_text(5);
            let n = t.chars().count();
            (str_lit(&t), n)
        } else {
            let (e, c, _) = self.mutable_string();
            (e, c.len())
        }
    }

    fn index_near(&mut self, len: usize) -> String {
        let len = len as i64;
        match self.rng.below(12) {
            0 => "-1".into(),
            1 => "0".into(),
            2 => "1".into(),
            3 => format!("{}", len - 1),
            4 => format!("{}", len),
            5 => format!("{}", len + 1),
            6 => "9223372036854775808".into(),
            _ => format!("{}", self.rng.range(0, (len - 1).max(0))),
        }
    }

    fn target(&mut self) -> String {
        format!("s{}", self.rng.usize(NSTR))
    }

    fn one_op(&mut self) {
        let choice = self.rng.below(26);
        let (text, name): (String, &'static str) = match choice {
            0 => {
                let (s, _) = self.string_arg();
                (format!("(string-length {})", s), "string-length")
            }
            1 | 2 => {
                let (s, n) = self.string_arg();
                let k = self.index_near(n);
                (format!("(string-ref {} {})", s, k), "string-ref")
            }
            3 | 4 | 5 => {
                let (s, content, _) = self.mutable_string();
                let k = self.index_near(content.len());
                let c = self.rand_char();
                if let Ok(i) = k.parse::<usize>() {
                    if let Some(old) = content.get(i) {
                        if old.len_utf8() != c.len_utf8() {
                            self.width_changes += 1;
                        }
                    }
                }
                (format!("(string-set! {} {} {})", s, k, chr_lit(c)), "string-set!")
            }
            6 | 7 => {
                let (s, n) = self.string_arg();
                let a = self.index_near(n);
                let b = self.index_near(n);
                let t = self.target();
                match self.rng.below(4) {
                    0 => (format!("(define {} (substring {} {} {}))", t, s, a, b), "substring"),
                    1 => (format!("(define {} (string-copy {}))", t, s), "string-copy"),
                    2 => (format!("(define {} (string-copy {} {}))", t, s, a), "string-copy"),
                    _ => (format!("(define {} (string-copy {} {} {}))", t, s, a, b), "string-copy"),
                }
            }
            8 | 9 => {
                let (s, content, _) = self.mutable_string();
                let n = content.len();
                let c = self.rand_char();
                if content.iter().any(|o| o.len_utf8() != c.len_utf8()) {
                    self.width_changes += 1;
                }
                let a = self.index_near(n);
                let b = self.index_near(n);
                match self.rng.below(3) {
                    0 => (format!("(string-fill! {} {})", s, chr_lit(c)), "string-fill!"),
                    1 => (format!("(string-fill! {} {} {})", s, chr_lit(c), a), "string-fill!"),
                    _ => (format!("(string-fill! {} {} {} {})", s, chr_lit(c), a, b), "string-fill!"),
                }
            }
            10 => {
                let (s, n) = self.string_arg();
                let a = self.index_near(n);
                let b = self.index_near(n);
                match self.rng.below(3) {
                    0 => (format!("(string->list {})", s), "string->list"),
                    1 => (format!("(string->list {} {})", s, a), "string->list"),
                    _ => (format!("(string->list {} {} {})", s, a, b), "string->list"),
                }
            }
            11 => {
                let (s, _) = self.string_arg();
                match self.rng.below(3) {
                    0 => (format!("(string->vector {})", s), "string->vector"),
                    1 => {
                        // directly, or with the characters taken through a list (pairs hold their
                        // elements in heap cells) on the way into the vector
                        let via = match self.rng.below(4) {
                            0 => format!("(list->vector (string->list {}))", s),
                            1 => format!("(apply vector (string->list {}))", s),
                            2 => format!("(let ((l (string->list {s}))) (if (null? l) (vector) (vector (car l) (car (reverse l)))))", s = s),
                            _ => format!("(string->vector {})", s),
                        };
                        (format!("(define {} (vector->string {}))", self.target(), via), "vector->string")
                    }
                    _ => {
                        let via = match self.rng.below(3) {
                            0 => format!("(vector->list (string->vector {}))", s),
                            1 => format!("(reverse (reverse (string->list {})))", s),
                            _ => format!("(string->list {})", s),
                        };
                        if self.rng.chance(1, 3) {
                            (format!("(define {} (apply string {}))", self.target(), via), "string")
                        } else {
                            (format!("(define {} (list->string {}))", self.target(), via), "list->string")
                        }
                    }
                }
            }
            12 => {
                let n = self.rng.usize(5);
                let cs: Vec<String> = (0..n).map(|_| chr_lit(self.rand_char())).collect();
                match self.rng.below(3) {
                    0 => (format!("(define {} (string {}))", self.target(), cs.join(" ")), "string"),
                    1 => (format!("(define {} (list->string (list {})))", self.target(), cs.join(" ")), "list->string"),
                    _ => (format!("(define {} (vector->string (vector {})))", self.target(), cs.join(" ")), "vector->string"),
                }
            }
            13 => {
                let k = *self.rng.pick(&["0", "1", "3", "-1"]);
                (format!("(define {} (make-string {} {}))", self.target(), k, chr_lit(self.rand_char())), "make-string")
            }
            14 | 15 => {
                let n = self.rng.usize(4);
                let args: Vec<String> = (0..n).map(|_| self.string_arg().0).collect();
                (format!("(define {} (string-append {}))", self.target(), args.join(" ")), "string-append")
            }
            16 | 17 | 18 => {
                let n = 2 + self.rng.usize(2);
                let mut args: Vec<String> = (0..n).map(|_| self.string_arg().0).collect();
                if self.rng.chance(1, 4) {
                    // two literals that are equal up to the case class of each character
                    let t = self.rand_text(4);
                    let v = self.fold_variant(&t);
                    args[0] = str_lit(&t);
                    args[1] = str_lit(&v);
                } else if self.rng.chance(1, 3) {
                    // equal or case-variant arguments make the interesting cases frequent
                    let first = args[0].clone();
                    args[1] = match self.rng.below(4) {
                        0 | 1 => first,
                        2 => format!("(string-upcase {})", first),
                        _ => format!("(string-downcase {})", first),
                    };
                }
                let op = *self.rng.pick(&["string=?", "string<?", "string>?", "string<=?", "string>=?", "string-ci=?", "string-ci<?", "string-ci>?", "string-ci<=?", "string-ci>=?"]);
                (format!("({} {})", op, args.join(" ")), "string-compare")
            }
            19 => {
                let (s, _) = self.string_arg();
                let op = *self.rng.pick(&["string-upcase", "string-downcase", "string-foldcase"]);
                (format!("(define {} ({} {}))", self.target(), op, s), "string-case")
            }
            20 => (format!("(char->integer {})", chr_lit(self.rand_char())), "char->integer"),
            21 | 22 => {
                let n: i64 = match self.rng.below(14) {
                    0 => 0,
                    1 => 65,
                    2 => 0x3bb,
                    3 => 0xD7FF,
                    4 => 0xD800,
                    5 => 0xDBFF,
                    6 => 0xDFFF,
                    7 => 0xE000,
                    8 => 0x10FFFF,
                    9 => 0x110000,
                    10 => -1,
                    11 => 1 << 31,
                    12 => self.rng.range(0xD700, 0xE100),
                    _ => self.rng.range(0, 0x11FFFF),
                };
                if self.rng.chance(1, 5) {
                    // beyond 32 and 64 bits: values whose low 32 bits are a valid scalar value
                    let big = *self.rng.pick(&["9223372036854775808", "4294967361", "30064771072", "-4294967231", "4294967296", "18446744073709551681", "-1114112"]);
                    (format!("(integer->char {})", big), "integer->char")
                } else {
                    (format!("(integer->char {})", n), "integer->char")
                }
            }
            23 => {
                let op = *self.rng.pick(&["char-alphabetic?", "char-numeric?", "char-whitespace?", "char-upper-case?", "char-lower-case?", "char-upcase", "char-downcase", "char-foldcase"]);
                let c = if self.rng.chance(1, 2) { self.rand_char() } else { self.property_char() };
                (format!("({} {})", op, chr_lit(c)), "char-predicate/case")
            }
            _ => {
                let n = 2 + self.rng.usize(2);
                let mut args: Vec<char> = (0..n).map(|_| self.rand_char()).collect();
                if self.rng.chance(1, 3) {
                    args[1] = args[0];
                }
                if self.rng.chance(1, 3) {
                    if let Some(cl) = FOLD_CLASSES.iter().find(|cl| cl.contains(&args[0])) {
                        args[1] = cl[self.rng.usize(cl.len())];
                    }
                } else if self.rng.chance(1, 3) {
                    // a case variant of the first
                    let c = args[0];
                    let up: Vec<char> = c.to_uppercase().collect();
                    let lo: Vec<char> = c.to_lowercase().collect();
                    if up.len() == 1 && up[0] != c {
                        args[1] = up[0];
                    } else if lo.len() == 1 {
                        args[1] = lo[0];
                    }
                }
                let op = *self.rng.pick(&["char=?", "char<?", "char>?", "char<=?", "char>=?", "char-ci=?", "char-ci<?", "char-ci>?", "char-ci<=?", "char-ci>=?"]);
                let a: Vec<String> = args.iter().map(|c| chr_lit(*c)).collect();
                (format!("({} {})", op, a.join(" ")), "char-compare")
            }
        };
        // an operation evaluated for its value sits as a later operand of an enclosing call, so
        // that a primitive that does not pop exactly its own operands disturbs its neighbours
        let text = if !text.starts_with("(define ") && self.rng.chance(2, 3) {
            match self.rng.below(3) {
                0 => format!("(list 'pre {} 'post)", text),
                1 => format!("(vector #\\p (if #t {} 'never) 42)", text),
                _ => format!("(cons \"pre\" {})", text),
            }
        } else {
            text
        };
        self.ops.push(name);
        self.emit(&text);
        self.dump();
    }

    /// read one character, mutate the string in place, read another character: a reader that
    /// remembers where it was must notice the mutation
    fn read_mutate_read(&mut self) {
        let name = format!("s{}", self.rng.usize(NSTR));
        let content = self.model_string(&name).unwrap_or_default();
        if content.len() < 2 {
            return;
        }
        let n = content.len();
        let i = self.rng.usize(n);
        let c = self.rand_char();
        let (a, b) = {
            let x = self.rng.usize(n + 1);
            let y = self.rng.usize(n + 1);
            (x.min(y), x.max(y))
        };
        let mutation = match self.rng.below(3) {
            0 => format!("(string-fill! {} {} {} {})", name, chr_lit(c), a, b),
            1 => format!("(string-fill! {} {})", name, chr_lit(c)),
            _ => format!("(string-set! {} {} {})", name, self.rng.usize(n), chr_lit(c)),
        };
        let j = self.rng.usize(n);
        let k = self.rng.usize(n);
        self.ops.push("read-mutate-read");
        for t in [
            format!("(string-ref {} {})", name, i),
            mutation,
            format!("(string-ref {} {})", name, j),
            format!("(list (string-ref {} {}) (string-length {}) (string->list {}))", name, k, name, name),
        ] {
            self.emit(&t);
        }
        self.dump();
    }

    fn marker_probe(&mut self) {
        let (s, content, _alias) = self.mutable_string();
        if content.is_empty() {
            return;
        }
        let m = MARKERS[self.marker % MARKERS.len()];
        self.marker += 1;
        let i = self.rng.usize(content.len());
        if content[i].len_utf8() != m.len_utf8() {
            self.width_changes += 1;
        }
        self.ops.push("marker-probe");
        self.emit(&format!("(string-set! {} {} {})", s, i, chr_lit(m)));
        self.dump();
    }

    pub fn generate(mut self, steps: usize) -> (Vec<Sx>, usize, Vec<&'static str>) {
        self.init();
        for s in 0..steps {
            if s % 3 == 2 {
                self.marker_probe();
            } else if self.rng.chance(1, 6) {
                self.read_mutate_read();
            } else {
                self.one_op();
            }
        }
        (self.forms, self.width_changes, self.ops)
    }
}
