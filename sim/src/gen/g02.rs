//! G02 — scope skeletons (DESIGN §5 C02): nested procedures over the names a, b, c; each level
//! binds each name as parameter / rest parameter / internal definition / not at all; reads and
//! set!s before and after closure creation; closures invoked inside the creator, after it
//! returned, repeatedly, and from separate activations. Every read is logged.
use crate::rng::Rng;
use crate::sx::{call, int, list, quote, sym, Sx};

pub const NAMES: [&str; 3] = ["a", "b", "c"];

#[derive(Clone, Copy, Debug, PartialEq, Eq)]
pub enum Bind {
    None,
    Param,
    Rest,
    Internal,
}

#[derive(Clone, Copy, Debug, PartialEq, Eq)]
pub enum Act {
    Read(usize),
    Set(usize),
}

#[derive(Clone, Copy, Debug, PartialEq, Eq)]
pub enum Mode {
    /// ((lambda ...) args) right here
    CallNow,
    /// (let ((k (lambda ...))) (k args) (k args))
    LetCallTwice,
    /// (define (inner ...) ...) as an internal definition, called after the pre-actions
    InternalDefine,
    /// stored in a global and called (twice) from later top-level forms
    StoreCallLater,
    /// every activation pushes its closure onto a global list; later forms call all of them, so
    /// closures of separate activations of an inner level are used after one another
    CollectAll,
    /// the level returns the closure; the top level calls it later (only meaningful at level 0,
    /// elsewhere it is called by the creator after the post-actions)
    Return,
}

#[derive(Clone, Debug)]
pub struct Level {
    pub binds: [Bind; 3],
    pub pre: Vec<Act>,
    pub inner: Option<(Box<Level>, Mode)>,
    pub post: Vec<Act>,
}

#[derive(Clone, Debug)]
pub struct Skeleton {
    pub top: Level,
    /// number of separate activations of the outermost procedure (1..3)
    pub activations: usize,
    pub names: usize,
}

struct Render {
    uniq: i64,
    tag: usize,
    stored: Vec<(String, usize)>, // global name, number of params of the stored closure
    later: Vec<Sx>,
    names: usize,
    collectors: Vec<String>,
}

impl Render {
    fn u(&mut self) -> Sx {
        self.uniq += 1;
        int(self.uniq)
    }
    fn act(&mut self, a: &Act) -> Sx {
        match a {
            Act::Read(n) => {
                self.tag += 1;
                call("%rec", vec![quote(sym(&format!("r{}", self.tag))), sym(NAMES[*n])])
            }
            Act::Set(n) => {
                let v = self.u();
                list(vec![sym("set!"), sym(NAMES[*n]), v])
            }
        }
    }

    fn formals(&self, l: &Level) -> (Sx, usize, bool) {
        let mut ps = vec![];
        let mut rest = None;
        for i in 0..self.names {
            match l.binds[i] {
                Bind::Param => ps.push(sym(NAMES[i])),
                Bind::Rest => rest = Some(sym(NAMES[i])),
                _ => {}
            }
        }
        let n = ps.len();
        let f = match rest {
            Some(r) if ps.is_empty() => r,
            Some(r) => Sx::Dotted(ps, Box::new(r)),
            None => list(ps),
        };
        let has_rest = matches!(f, Sx::Sym(_) | Sx::Dotted(_, _));
        (f, n, has_rest)
    }

    fn args(&mut self, n: usize, has_rest: bool) -> Vec<Sx> {
        let extra = if has_rest { 2 } else { 0 };
        (0..n + extra).map(|_| self.u()).collect()
    }

    /// body forms of a level
    fn body(&mut self, l: &Level, depth: usize) -> Vec<Sx> {
        let mut out = vec![];
        for i in 0..self.names {
            if l.binds[i] == Bind::Internal {
                let v = self.u();
                out.push(list(vec![sym("define"), sym(NAMES[i]), v]));
            }
        }
        let mut after_post: Vec<Sx> = vec![];
        let mut result: Sx = quote(sym("done"));
        let mut inner_forms: Vec<Sx> = vec![];
        if let Some((inner, mode)) = &l.inner {
            let (formals, n, has_rest) = self.formals(inner);
            let mode = if *mode == Mode::Return && depth > 0 { Mode::LetCallTwice } else { *mode };
            match mode {
                Mode::InternalDefine => {
                    // definitions must precede expressions: emit the definition now
                    let name = format!("%inner{}", depth);
                    let body = self.body(inner, depth + 1);
                    let head = match &formals {
                        Sx::List(ps) => {
                            let mut h = vec![sym(&name)];
                            h.extend(ps.clone());
                            list(h)
                        }
                        Sx::Dotted(ps, r) => {
                            let mut h = vec![sym(&name)];
                            h.extend(ps.clone());
                            Sx::Dotted(h, r.clone())
                        }
                        r => Sx::Dotted(vec![sym(&name)], Box::new(r.clone())),
                    };
                    let mut d = vec![sym("define"), head];
                    d.extend(body);
                    out.push(list(d));
                    let a1 = self.args(n, has_rest);
                    inner_forms.push(call(&name, a1));
                    let a2 = self.args(n, has_rest);
                    after_post.push(call(&name, a2));
                }
                _ => {
                    let body = self.body(inner, depth + 1);
                    let mut lam = vec![sym("lambda"), formals];
                    lam.extend(body);
                    let lam = list(lam);
                    match mode {
                        Mode::CallNow => {
                            let a = self.args(n, has_rest);
                            let mut c = vec![lam];
                            c.extend(a);
                            inner_forms.push(list(c));
                        }
                        Mode::LetCallTwice => {
                            let k = format!("%k{}", depth);
                            let a1 = self.args(n, has_rest);
                            let a2 = self.args(n, has_rest);
                            // the second call happens after the creator's post-actions ran: the
                            // whole rest of the level lives inside the let body
                            inner_forms.push(list(vec![sym("%let-marker"), sym(&k), lam, call(&k, a1)]));
                            after_post.push(call(&k, a2));
                        }
                        Mode::StoreCallLater => {
                            let g = format!("%g{}", self.stored.len());
                            self.stored.push((g.clone(), n));
                            inner_forms.push(list(vec![sym("set!"), sym(&g), lam]));
                            for _ in 0..2 {
                                let a = self.args(n, has_rest);
                                self.later.push(call(&g, a));
                            }
                        }
                        Mode::CollectAll => {
                            let g = format!("%g{}", self.stored.len());
                            self.stored.push((g.clone(), n));
                            self.collectors.push(g.clone());
                            inner_forms.push(list(vec![
                                sym("set!"),
                                sym(&g),
                                call("cons", vec![lam, call("%as-list", vec![sym(&g)])]),
                            ]));
                            for _ in 0..2 {
                                let a = self.args(n, has_rest);
                                let mut c = vec![sym("%k")];
                                c.extend(a);
                                self.later.push(call(
                                    "for-each",
                                    vec![list(vec![sym("lambda"), list(vec![sym("%k")]), list(c)]), sym(&g)],
                                ));
                            }
                        }
                        Mode::Return => {
                            result = lam;
                        }
                        Mode::InternalDefine => unreachable!(),
                    }
                }
            }
        }
        for a in &l.pre {
            out.push(self.act(a));
        }
        // inner handling: a LetCallTwice wraps the remainder of the body
        let mut tail: Vec<Sx> = vec![];
        for a in &l.post {
            tail.push(self.act(a));
        }
        tail.extend(after_post);
        tail.push(result);
        let mut wrapped = false;
        for f in inner_forms {
            if f.head_is("%let-marker") {
                if let Sx::List(v) = &f {
                    let mut body = vec![v[3].clone()];
                    body.extend(tail.clone());
                    let mut l = vec![sym("let"), list(vec![list(vec![v[1].clone(), v[2].clone()])])];
                    l.extend(body);
                    out.push(list(l));
                    wrapped = true;
                }
            } else {
                out.push(f);
            }
        }
        if !wrapped {
            out.extend(tail);
        }
        out
    }
}

impl Skeleton {
    pub fn render(&self) -> Vec<Sx> {
        let mut r = Render {
            uniq: 1000,
            tag: 0,
            stored: vec![],
            later: vec![],
            names: self.names,
            collectors: vec![],
        };
        let (formals, n, has_rest) = r.formals(&self.top);
        let body = r.body(&self.top, 0);
        let mut lam = vec![sym("lambda"), formals];
        lam.extend(body);
        let mut forms = vec![
            list(vec![sym("define"), sym("%log"), quote(list(vec![]))]),
            crate::sx::read_one("(define (%rec tag v) (set! %log (cons (cons tag v) %log)) v)").unwrap(),
            crate::sx::read_one("(define (%as-list x) (if (pair? x) x '()))").unwrap(),
        ];
        for i in 0..self.names {
            forms.push(list(vec![sym("define"), sym(NAMES[i]), int(100 + i as i64)]));
        }
        for (g, _) in &r.stored {
            forms.push(list(vec![sym("define"), sym(g), Sx::Bool(false)]));
        }
        forms.push(list(vec![sym("define"), sym("%top"), list(lam)]));
        let returns_closure = matches!(&self.top.inner, Some((_, Mode::Return)));
        let mut results = vec![];
        for act in 0..self.activations {
            let a = r.args(n, has_rest);
            if returns_closure {
                let c = format!("%c{}", act);
                forms.push(list(vec![sym("define"), sym(&c), call("%top", a)]));
                results.push(c);
            } else {
                forms.push(call("%top", a));
            }
        }
        if returns_closure {
            if let Some((inner, _)) = &self.top.inner {
                let (_, n2, rest2) = r.formals(inner);
                // interleave calls of closures from separate activations
                for round in 0..2 {
                    for c in &results {
                        let a = r.args(n2, rest2);
                        forms.push(call(c, a));
                    }
                    let _ = round;
                }
            }
        }
        forms.extend(r.later.clone());
        forms.push(call("reverse", vec![sym("%log")]));
        let mut globals = vec![];
        for i in 0..self.names {
            globals.push(sym(NAMES[i]));
        }
        forms.push(call("list", globals));
        forms
    }

    pub fn nontrivial(&self) -> bool {
        // >= 1 name shadowed and >= 1 captured variable mutated after capture
        fn walk(l: &Level, bound_above: [bool; 3], shadow: &mut bool, mutated: &mut bool) {
            let mut bound = bound_above;
            for i in 0..3 {
                if l.binds[i] != Bind::None {
                    if bound_above[i] {
                        *shadow = true;
                    }
                    bound[i] = true;
                }
            }
            if let Some((inner, _)) = &l.inner {
                // a set! after the closure was created (post of this level) or inside it, of a
                // variable bound at or above this level
                for a in l.post.iter().chain(inner.pre.iter()).chain(inner.post.iter()) {
                    if let Act::Set(n) = a {
                        if bound[*n] {
                            *mutated = true;
                        }
                    }
                }
                walk(inner, bound, shadow, mutated);
            }
        }
        let mut s = false;
        let mut m = false;
        // globals count as an outer binding of every name
        walk(&self.top, [true; 3], &mut s, &mut m);
        s && m
    }

    pub fn depth(&self) -> usize {
        let mut d = 1;
        let mut cur = &self.top;
        while let Some((i, _)) = &cur.inner {
            d += 1;
            cur = i;
        }
        d
    }
}

fn random_binds(rng: &mut Rng, names: usize) -> [Bind; 3] {
    let mut b = [Bind::None; 3];
    let mut rest_used = false;
    for slot in b.iter_mut().take(names) {
        *slot = match rng.below(6) {
            0 | 1 => Bind::Param,
            2 => Bind::Internal,
            3 if !rest_used => {
                rest_used = true;
                Bind::Rest
            }
            _ => Bind::None,
        };
    }
    // the rest parameter must come after the fixed ones in the formals, which `formals`
    // guarantees by construction (it collects params first)
    b
}

fn random_acts(rng: &mut Rng, names: usize, max: usize) -> Vec<Act> {
    let n = rng.usize(max + 1);
    (0..n)
        .map(|_| {
            let name = rng.usize(names);
            if rng.chance(2, 5) {
                Act::Set(name)
            } else {
                Act::Read(name)
            }
        })
        .collect()
}

fn random_level(rng: &mut Rng, names: usize, depth_left: usize) -> Level {
    let inner = if depth_left > 0 {
        let mode = match rng.below(8) {
            0 => Mode::CallNow,
            1 => Mode::LetCallTwice,
            2 => Mode::InternalDefine,
            3 | 4 => Mode::StoreCallLater,
            5 | 6 => Mode::CollectAll,
            _ => Mode::Return,
        };
        Some((Box::new(random_level(rng, names, depth_left - 1)), mode))
    } else {
        None
    };
    Level {
        binds: random_binds(rng, names),
        pre: random_acts(rng, names, 4),
        inner,
        post: random_acts(rng, names, 4),
    }
}

pub fn random_skeleton(rng: &mut Rng) -> Skeleton {
    let depth = 1 + rng.usize(4); // 1..4 nested procedures
    Skeleton {
        top: random_level(rng, 3, depth - 1),
        activations: 1 + rng.usize(3),
        names: 3,
    }
}

/// Complete enumeration: depth <= 2 over the names a, b; every binding combination at both
/// levels; canonical actions (read all, set all, read all) around the inner closure; every mode.
pub fn enumerate_small() -> Vec<Skeleton> {
    let binds = [Bind::None, Bind::Param, Bind::Rest, Bind::Internal];
    let all_reads: Vec<Act> = vec![Act::Read(0), Act::Read(1)];
    let all: Vec<Act> = vec![Act::Read(0), Act::Read(1), Act::Set(0), Act::Set(1), Act::Read(0), Act::Read(1)];
    let mut out = vec![];
    for a0 in binds {
        for b0 in binds {
            if a0 == Bind::Rest && b0 == Bind::Rest {
                continue;
            }
            // depth 1
            out.push(Skeleton {
                top: Level {
                    binds: [a0, b0, Bind::None],
                    pre: all.clone(),
                    inner: None,
                    post: vec![],
                },
                activations: 2,
                names: 2,
            });
            for a1 in binds {
                for b1 in binds {
                    if a1 == Bind::Rest && b1 == Bind::Rest {
                        continue;
                    }
                    for mode in [Mode::CallNow, Mode::LetCallTwice, Mode::InternalDefine, Mode::StoreCallLater, Mode::CollectAll, Mode::Return] {
                        out.push(Skeleton {
                            top: Level {
                                binds: [a0, b0, Bind::None],
                                pre: all_reads.clone(),
                                inner: Some((
                                    Box::new(Level {
                                        binds: [a1, b1, Bind::None],
                                        pre: all.clone(),
                                        inner: None,
                                        post: vec![],
                                    }),
                                    mode,
                                )),
                                post: all.clone(),
                            },
                            activations: 2,
                            names: 2,
                        });
                    }
                }
            }
        }
    }
    out
}

// ---------------------------------------------------------------------------
// Loop sessions: "separate activations get separate locations" where the activations are the
// iterations of a loop. Every iteration creates closures over the loop variables; the closures are
// used after later iterations have begun and after the loop has returned.
// ---------------------------------------------------------------------------

/// one loop definition plus the forms that use the collected closures
fn loop_family(rng: &mut Rng, tag: usize) -> Vec<String> {
    let k = 2 + rng.usize(4);
    let name = format!("lp{}", tag);
    // what each iteration conses onto the accumulator
    let (make, uses): (String, Vec<String>) = match rng.below(5) {
        0 => (
            "(lambda () i)".into(),
            vec![format!("(map (lambda (p) (p)) cs{t})", t = tag)],
        ),
        1 => (
            "(lambda (d) (set! i (+ i d)) i)".into(),
            vec![
                format!("(map (lambda (p) (p 10)) cs{t})", t = tag),
                format!("(map (lambda (p) (p 1)) cs{t})", t = tag),
                format!("((car cs{t}) 100)", t = tag),
                format!("(map (lambda (p) (p 0)) cs{t})", t = tag),
            ],
        ),
        2 => (
            "(cons (lambda () i) (lambda (v) (set! i v)))".into(),
            vec![
                format!("(map (lambda (p) ((car p))) cs{t})", t = tag),
                format!("((cdr (car cs{t})) 'changed)", t = tag),
                format!("(map (lambda (p) ((car p))) cs{t})", t = tag),
                format!("((cdr (car (reverse cs{t}))) 'last)", t = tag),
                format!("(map (lambda (p) ((car p))) cs{t})", t = tag),
            ],
        ),
        3 => (
            "(let ((j (* i 2))) (lambda () (set! j (+ j 1)) (list i j)))".into(),
            vec![
                format!("(map (lambda (p) (p)) cs{t})", t = tag),
                format!("(map (lambda (p) (p)) cs{t})", t = tag),
            ],
        ),
        _ => (
            "(lambda () (set! i (* i 10)) (list i extra))".into(),
            vec![
                format!("(map (lambda (p) (p)) cs{t})", t = tag),
                format!("(map (lambda (p) (p)) cs{t})", t = tag),
            ],
        ),
    };
    // the loop shape; `extra` is a second parameter some bodies read
    let def: Vec<String> = match rng.below(8) {
        // direct self tail call through `if` in a top-level procedure
        0 | 1 => vec![format!(
            "(define ({n} i extra acc) (if (= i {k}) acc ({n} (+ i 1) extra (cons {make} acc))))",
            n = name, k = k, make = make
        )],
        // through cond / when
        2 => vec![format!(
            "(define ({n} i extra acc) (cond ((= i {k}) acc) (else ({n} (+ i 1) extra (cons {make} acc)))))",
            n = name, k = k, make = make
        )],
        // named let inside a procedure
        3 => vec![format!(
            "(define ({n} start extra acc0) (let loop ((i start) (acc acc0)) (if (= i {k}) acc (loop (+ i 1) (cons {make} acc)))))",
            n = name, k = k, make = make
        )],
        // mutual recursion
        4 => vec![
            format!(
                "(define ({n} i extra acc) (if (= i {k}) acc ({n}-b (+ i 1) extra (cons {make} acc))))",
                n = name, k = k, make = make
            ),
            format!(
                "(define ({n}-b i extra acc) (if (= i {k}) acc ({n} (+ i 1) extra (cons {make} acc))))",
                n = name, k = k, make = make
            ),
        ],
        // non-tail recursion
        5 => vec![format!(
            "(define ({n} i extra acc) (if (= i {k}) acc (cons {make} ({n} (+ i 1) extra acc))))",
            n = name, k = k, make = make
        )],
        // tail call through apply
        6 => vec![format!(
            "(define ({n} i extra acc) (if (= i {k}) acc (apply {n} (+ i 1) extra (list (cons {make} acc)))))",
            n = name, k = k, make = make
        )],
        // the accumulator is a vector filled through for-each over indices
        _ => vec![format!(
            "(define ({n} i0 extra acc) (let ((out '())) (for-each (lambda (i) (set! out (cons {make} out))) (list 0 1 2)) out))",
            n = name, make = make
        )],
    };
    let mut forms = def;
    forms.push(format!("(define cs{t} ({n} 0 'e{t} '()))", t = tag, n = name));
    forms.push(format!("(length cs{})", tag));
    forms.extend(uses);
    // a second, independent run of the loop must not disturb the first one's closures
    if rng.chance(1, 2) {
        forms.push(format!("(define ds{t} ({n} 1 'f{t} '()))", t = tag, n = name));
        forms.push(format!("(length ds{})", tag));
        forms.push(format!("(length cs{})", tag));
    }
    forms
}

/// named let whose tag has the name of a variable that is visible around the form and that an
/// init expression (or a closure created in one) reads or assigns: the tag is bound in the body only
fn tag_shadow_family(rng: &mut Rng, tag: usize) -> Vec<String> {
    let t = tag;
    let k = 3 + rng.usize(4);
    match rng.below(4) {
        // the tag shadows a parameter
        0 => vec![
            format!("(define (ts{t} k) (let k ((n (+ k 1)) (acc '())) (if (> n {k}) (reverse acc) (k (+ n 1) (cons n acc)))))"),
            format!("(ts{t} 1)"),
            format!("(ts{t} 3)"),
        ],
        // the tag shadows a global procedure that an init calls
        1 => vec![
            format!("(define (tg{t} x) (* x 2))"),
            format!("(let tg{t} ((n (tg{t} 2)) (acc 0)) (if (> n {k}) acc (tg{t} (+ n 1) (+ acc n))))"),
            format!("(tg{t} 5)"),
        ],
        // a closure created in an init reads and assigns the outer variable
        2 => vec![
            format!("(define (tc{t} go) (let go ((get (lambda () go)) (put (lambda (v) (set! go v))) (i 0)) (if (< i 2) (begin (put (list 'put i (get))) (go get put (+ i 1))) (get))))"),
            format!("(tc{t} 'start)"),
        ],
        // the tag shadows an internal definition
        _ => vec![
            format!("(define (td{t} a) (define w (* a 10)) (let w ((n w) (acc '())) (if (> (length acc) 2) acc (w (+ n 1) (cons n acc)))))"),
            format!("(td{t} 4)"),
        ],
    }
}

/// let / let* / letrec forms that bind a name which is also visible outside, with inits (and
/// closures created in inits) that read or assign that name: the region of each binding is the
/// one R7RS gives it
fn binder_shadow_family(rng: &mut Rng, tag: usize) -> Vec<String> {
    let t = tag;
    match rng.below(5) {
        0 => vec![
            format!("(define (bs{t} x) (let* ((y x) (x (* x 10)) (z (+ x y))) (list x y z)))"),
            format!("(bs{t} 3)"),
        ],
        1 => vec![
            format!("(define (bs{t} x) (let* ((x (+ x 1)) (x (* x 2))) x))"),
            format!("(bs{t} 5)"),
        ],
        2 => vec![
            format!("(define (bs{t} x) (let* ((get (lambda () x)) (put (lambda (v) (set! x v))) (x 99)) (put 100) (list (get) x)))"),
            format!("(bs{t} 1)"),
        ],
        3 => vec![
            format!("(define bx{t} 'global)"),
            format!("(let* ((seen bx{t}) (bx{t} (list seen 'inner))) (list seen bx{t}))"),
            format!("(let ((bx{t} (list bx{t})) (other bx{t})) (list bx{t} other))"),
            format!("bx{t}"),
        ],
        _ => vec![
            format!("(define (bs{t} x) (let ((x (+ x 1)) (y x)) (let* ((y (+ x y)) (x y)) (list x y))))"),
            format!("(bs{t} 10)"),
        ],
    }
}

pub fn loop_session(rng: &mut Rng) -> Vec<Sx> {
    let n = 1 + rng.usize(2);
    let mut texts = vec![];
    for tag in 0..n {
        if rng.chance(1, 3) {
            texts.extend(tag_shadow_family(rng, tag));
        } else if rng.chance(1, 3) {
            texts.extend(binder_shadow_family(rng, tag));
        } else {
            texts.extend(loop_family(rng, tag));
        }
    }
    texts.iter().map(|t| crate::sx::read_one(t).unwrap_or_else(|e| panic!("loop session text: {} in {}", e, t))).collect()
}

// ---------------------------------------------------------------------------
// Call-shape sessions: after a call returns, the caller's bindings are the caller's. The callee is
// reached through a middle procedure that calls it in tail or non-tail position; callees are
// fixed-arity and variadic procedures called with 0..3 optional arguments; the caller reads and
// assigns its own variables and creates closures after the call has returned.
// ---------------------------------------------------------------------------

fn call_shape_family(rng: &mut Rng, tag: usize) -> Vec<String> {
    let t = tag;
    let mut forms = vec![];
    // the callee
    let (callee_def, nfixed, variadic): (String, usize, bool) = match rng.below(4) {
        0 => (format!("(define (cal{t} . opt) (if (null? opt) 'none (car opt)))"), 0, true),
        1 => (format!("(define (cal{t} p . opt) (list p (length opt)))"), 1, true),
        2 => (format!("(define (cal{t} p q) (list q p))"), 2, false),
        _ => (format!("(define (cal{t}) 'thunk)"), 0, false),
    };
    forms.push(callee_def);
    let nopt = if variadic { rng.usize(4) } else { 0 };
    let args: Vec<String> = (0..nfixed + nopt).map(|i| format!("'arg{}", i)).collect();
    let call = format!("(cal{t} {})", args.join(" "));
    // the middle procedure: its own parameters have other values than the caller's
    let mid_arity = rng.usize(4);
    let mid_params: Vec<String> = (0..mid_arity).map(|i| format!("m{}", i)).collect();
    let mid_body = match rng.below(3) {
        0 => call.clone(),                                   // tail call
        1 => format!("(if (null? '()) {} 'never)", call),    // tail call through if
        _ => format!("(car (list {}))", call),               // non-tail call
    };
    forms.push(format!("(define (mid{t} {}) {})", mid_params.join(" "), mid_body));
    let mid_args: Vec<String> = (0..mid_arity).map(|i| format!("{}", 100 * (i + 1))).collect();
    let mid_call = format!("(mid{t} {})", mid_args.join(" "));
    // the caller
    let outer = match rng.below(4) {
        0 => format!("(define (out{t} x y z) {mid_call} (list x y z))"),
        1 => format!("(define (out{t} x y z) (let ((get (lambda () (list x y z)))) (set! x 'new-x) {mid_call} (set! z 'new-z) (get)))"),
        2 => format!("(define (out{t} x y z) (define r {mid_call}) (lambda () (list r x y z)))"),
        _ => format!("(define (out{t} x y z) (list x {mid_call} y (let ((w z)) {mid_call} w) z))"),
    };
    forms.push(outer);
    forms.push(format!("(define res{t} (out{t} 1 2 3))"));
    forms.push(format!("(if (procedure? res{t}) (res{t}) res{t})"));
    // once more from inside another activation
    forms.push(format!("((lambda (a b) (let ((r (out{t} a b 'c))) (list a (if (procedure? r) (r) r) b))) 'p 'q)"));
    forms
}

/// internal definitions of every spelling - (define v e), (define (h a) ..), (define (h . r) ..),
/// (define (h a . r) ..) - are local to their activation: a global of the same name is untouched,
/// two activations have two of them, closures returned from an activation keep theirs
fn internal_define_family(rng: &mut Rng, tag: usize) -> Vec<String> {
    let t = tag;
    let inner = match rng.below(5) {
        0 => format!("(define (inner{t} . xs) (cons tag xs))"),
        1 => format!("(define (inner{t} a . xs) (cons tag (cons a xs)))"),
        2 => format!("(define (inner{t} a) (list tag a))"),
        3 => format!("(define inner{t} (lambda xs (cons tag xs)))"),
        _ => format!("(define inner{t} (list tag 'value))"),
    };
    let is_value = inner.ends_with("'value))");
    let use_inner = if is_value { format!("(cons v inner{t})") } else { format!("(inner{t} v)") };
    let mut forms = vec![
        format!("(define inner{t} 'global-inner)"),
        format!("(define (mk{t} tag) {inner} (lambda (v) {use_inner}))"),
        format!("(define a{t} (mk{t} 'a))"),
        format!("(define b{t} (mk{t} 'b))"),
        format!("(list (a{t} 1) (b{t} 2) (a{t} 3))"),
        format!("inner{t}"),
    ];
    // a recursive activation defines its own inner procedure, the outer one keeps its own
    if !is_value {
        forms.push(format!(
            "(define (rec{t} n) {inner2} (if (= n 0) (list (inner{t} n)) (cons (inner{t} n) (append (rec{t} (- n 1)) (list (inner{t} n))))))",
            inner2 = inner.replace("tag", "n")
        ));
        forms.push(format!("(rec{t} 2)"));
        forms.push(format!("inner{t}"));
    }
    forms
}

/// a variable whose value is a procedure is one mutable location like any other: closures created
/// in the activation see a later assignment, and assignments through a closure reach the creator
fn procedure_valued_family(rng: &mut Rng, tag: usize) -> Vec<String> {
    let t = tag;
    match rng.below(3) {
        0 => vec![
            format!("(define (pv{t}) (define (helper) 'old) (define (user) (helper)) (set! helper (lambda () 'new)) (list (user) (helper)))"),
            format!("(pv{t})"),
        ],
        1 => vec![
            format!("(define (pv{t} f) (let ((g (lambda () (f))) (put (lambda (h) (set! f h)))) (put (lambda () 'second)) (list (g) (f))))"),
            format!("(pv{t} (lambda () 'first))"),
        ],
        _ => vec![
            format!("(define (pv{t} f) (define calls '()) (define (call) (set! calls (cons (f) calls))) (call) (set! f (lambda () 'b)) (call) (let ((again (lambda () (f)))) (set! f (lambda () 'c)) (list calls (again))))"),
            format!("(pv{t} (lambda () 'a))"),
        ],
    }
}

/// a call that comes back through a continuation instead of a return - an escape out of a callee
/// that has variables of its own, or a re-entry from a later form or from inside another
/// activation - resumes the capturing activation with its own bindings: reads, assignments seen
/// by closures created before the capture, and closures created after it
fn nonlocal_return_family(rng: &mut Rng, tag: usize) -> Vec<String> {
    let t = tag;
    let mut forms = vec![];
    let reentry = rng.chance(1, 2);
    // what the receiver of the continuation does
    let receiver = if reentry {
        format!("(lambda (k) (set! nk{t} k) 'first)")
    } else {
        match rng.below(3) {
            0 => format!("(lambda (k) (thrower{t} k 100 200) 'not-reached)"),
            1 => format!("(lambda (k) (car (list (thrower{t} k 100 200))))"),
            _ => format!("(lambda (k) (let ((x 'inner-x) (y 'inner-y)) (thrower{t} k x y)))"),
        }
    };
    let capture = format!("(call/cc {})", receiver);
    if reentry {
        forms.push(format!("(define nk{t} #f)"));
        forms.push(format!("(define nn{t} 0)"));
    } else {
        let thrower = match rng.below(3) {
            0 => format!("(define (thrower{t} k x y) (k (list 'thrown x y)))"),
            1 => format!("(define (thrower{t} k x y) (let ((z (list x y)) (x 'deeper)) ((lambda (y) (k (list 'thrown x y z))) 'deepest)))"),
            _ => format!("(define (thrower{t} k . x) (define y (length x)) (for-each (lambda (x) (if (number? x) (k (list 'thrown x y)))) x) 'none)"),
        };
        forms.push(thrower);
    }
    // the capturing procedure: the capture sits in an operand, a binding init, an internal
    // definition or a non-final body form; afterwards it uses its own variables
    let outer = match rng.below(6) {
        0 => format!("(define (cap{t} x y z) (list x {capture} y z))"),
        1 => format!("(define (cap{t} x y z) (let ((r {capture})) (list r x y z)))"),
        2 => format!("(define (cap{t} x y z) (define r {capture}) (set! y (list y 'seen)) (list r x y z))"),
        3 => format!("(define (cap{t} x y z) (let ((get (lambda () (list x y z))) (put (lambda (v) (set! x v)))) {capture} (put (list 'put x)) (get)))"),
        4 => format!("(define (cap{t} x y z) (let ((r {capture})) (let ((later (lambda () (list r x y z)))) (set! z (list z)) (later))))"),
        _ => format!("(define (cap{t} x . y) (let* ((r {capture}) (w (cons r x))) (list w x y)))"),
    };
    forms.push(outer);
    forms.push(format!("(cap{t} 1 2 3)"));
    if reentry {
        // from a later top-level form
        forms.push(format!("(if (< nn{t} 1) (begin (set! nn{t} (+ nn{t} 1)) (nk{t} 'again)) 'stop)"));
        // from inside an activation whose variables have the same names
        forms.push(format!("(define (again{t} x y z) (if (< nn{t} 3) (begin (set! nn{t} (+ nn{t} 1)) (nk{t} (list 'from x y z))) (list 'stop x y z)))"));
        forms.push(format!("(again{t} 'ax 'ay 'az)"));
        forms.push(format!("((lambda (x) (let ((y 'ly)) (again{t} x y 'lz))) 'lx)"));
    }
    // once more from inside another activation
    forms.push(format!("((lambda (x y) (let ((r (cap{t} 'p 'q 'r))) (list x r y))) 'ox 'oy)"));
    forms
}

/// a variable that a closure mentions only inside a quasiquote template (a list, a vector, a
/// dotted or a nested template) is a reference like any other: it denotes the binding of the
/// enclosing procedure, not a global of the same name, and shares its location with a setter
fn template_reference_family(rng: &mut Rng, tag: usize) -> Vec<String> {
    let t = tag;
    let template = |rng: &mut Rng, a: &str, b: &str| -> String {
        match rng.below(7) {
            0 | 1 => format!("`#(,{a} ,{b})"),
            2 => format!("`(,{a} . ,{b})"),
            3 => format!("`(k #(,{a}) (,{b}))"),
            4 => format!("`#(,{b} #(,{a}))"),
            5 => format!("`(1 `(2 ,(3 ,{a})) ,{b})"),
            _ => format!("`#(tag ,(list {a}) #(,{b}) ,{a})"),
        }
    };
    let t1 = template(rng, &format!("qx{t}"), "qy");
    let t2 = template(rng, "v", &format!("qx{t}"));
    let t3 = template(rng, "qy", "qy");
    let mut forms = vec![
        format!("(define qx{t} 'global-x)"),
        format!("(define qy 'global-y)"),
        // the creator's parameters have the names of globals
        format!("(define (qmk{t} qx{t} qy) (lambda () {t1}))"),
        format!("((qmk{t} 1 2))"),
        format!("(define qc{t} (qmk{t} 'one 'two))"),
        format!("(qc{t})"),
        // reader through a template, setter in the same activation
        format!("(define (qcell{t} v) (cons (lambda () {t2}) (lambda (n) (set! v n))))"),
        format!("(define qp{t} (qcell{t} 10))"),
        format!("((car qp{t}))"),
        format!("((cdr qp{t}) 12)"),
        format!("((car qp{t}))"),
    ];
    if rng.chance(1, 2) {
        // two levels of procedures between the binding and the template
        forms.push(format!("(define (qdeep{t} qy) (lambda (unused) (lambda () {t3})))"));
        forms.push(format!("(((qdeep{t} 'deep) 0))"));
    }
    forms.push(format!("(list qx{t} qy)"));
    forms
}

pub fn call_shape_session(rng: &mut Rng) -> Vec<Sx> {
    let n = 1 + rng.usize(3);
    let mut texts = vec![];
    for tag in 0..n {
        match rng.below(7) {
            6 => texts.extend(template_reference_family(rng, tag)),
            0 => texts.extend(internal_define_family(rng, tag)),
            1 => texts.extend(procedure_valued_family(rng, tag)),
            2 | 3 => texts.extend(nonlocal_return_family(rng, tag)),
            _ => texts.extend(call_shape_family(rng, tag)),
        }
    }
    texts.iter().map(|t| crate::sx::read_one(t).unwrap_or_else(|e| panic!("call shape text: {} in {}", e, t))).collect()
}
