//! G05 — continuation programs (DESIGN §5 C05, Appendix A): call/cc at operand, tail and nested
//! positions; k stored in globals, closures, pairs, vectors; invoked 0-3 times from loops,
//! map/for-each callbacks, other continuations' extents and later top-level forms.
use crate::rng::Rng;
use crate::sx::{read_all, Sx};

fn p(forms: &mut Vec<Sx>, text: &str) {
    forms.extend(read_all(text).unwrap_or_else(|e| panic!("g05 template does not read: {} in {}", e, text)));
}

/// where the continuation is kept: (definition forms, store expr given `c`, fetch expr)
fn storage(rng: &mut Rng, t: usize) -> (String, String, String, &'static str) {
    match rng.below(5) {
        0 => (format!("(define k{t} #f)", t = t), format!("(set! k{t} c)", t = t), format!("k{t}", t = t), "global"),
        1 => (
            format!("(define box{t} (vector 'empty #f))", t = t),
            format!("(vector-set! box{t} 1 c)", t = t),
            format!("(vector-ref box{t} 1)", t = t),
            "vector",
        ),
        2 => (
            format!("(define cell{t} (list 'k #f))", t = t),
            format!("(set-car! (cdr cell{t}) c)", t = t),
            format!("(car (cdr cell{t}))", t = t),
            "pair",
        ),
        3 => (
            format!(
                "(define keeper{t} (let ((saved #f)) (lambda (op v) (if (eq? op 'put) (begin (set! saved v) 'stored) (saved v)))))",
                t = t
            ),
            format!("(keeper{t} 'put c)", t = t),
            format!("(lambda (v) (keeper{t} 'call v))", t = t),
            "closure",
        ),
        _ => (
            format!("(define ks{t} '())", t = t),
            format!("(set! ks{t} (cons c ks{t}))", t = t),
            format!("(car ks{t})", t = t),
            "list",
        ),
    }
}

pub struct Generated {
    pub forms: Vec<Sx>,
    pub templates: Vec<&'static str>,
    pub reentry_planned: bool,
}

pub fn session(rng: &mut Rng) -> Generated {
    let mut forms = vec![];
    let mut names = vec![];
    let mut reentry = false;
    p(
        &mut forms,
        "(define (c-build n) (let loop ((i 0) (acc '())) (if (< i n) (loop (+ i 1) (cons i acc)) acc)))
         (define trail '())
         (define (note x) (set! trail (cons x trail)) x)",
    );
    let n = 1 + rng.usize(4);
    for t in 0..n {
        let a = rng.range(1, 50);
        let b = rng.range(1, 50);
        let times = rng.range(0, 3);
        match rng.below(37) {
            0 => {
                names.push("early-exit");
                let limit = rng.range(0, 8);
                p(
                    &mut forms,
                    &format!(
                        "(define (find-first{t} pred lst) (call/cc (lambda (return) (for-each (lambda (x) (note x) (if (pred x) (return x))) lst) 'none)))
                         (find-first{t} (lambda (x) (> x {limit})) '(1 3 5 7 9))
                         (find-first{t} (lambda (x) (> x 100)) (c-build {b}))",
                        t = t,
                        limit = limit,
                        b = b % 7
                    ),
                );
            }
            1 | 2 => {
                // generator-style re-entry from later forms
                names.push("reentry-from-later-form");
                reentry = times > 0;
                let (def, store, fetch, _) = storage(rng, t);
                p(
                    &mut forms,
                    &format!(
                        "{def}
                         (define n{t} 0)
                         (+ {a} (call/cc (lambda (c) {store} {b})))",
                        def = def,
                        t = t,
                        a = a,
                        store = store,
                        b = b
                    ),
                );
                for _ in 0..times + 1 {
                    p(
                        &mut forms,
                        &format!(
                            "(if (< n{t} {times}) (begin (set! n{t} (+ n{t} 1)) ({fetch} (* n{t} 100))) (list 'finished n{t}))",
                            t = t,
                            times = times,
                            fetch = fetch
                        ),
                    );
                }
            }
            3 => {
                // operand position: left operands are not re-evaluated, right ones are
                names.push("operand-position");
                reentry = true;
                let (def, store, fetch, _) = storage(rng, t);
                p(
                    &mut forms,
                    &format!(
                        "{def}
                         (define n{t} 0)
                         (list (begin (display 'left{t}) (note 'l) (list 'fresh n{t} (c-build 3))) (call/cc (lambda (c) {store} 'first)) (begin (display 'right{t}) (note 'r)))
                         (if (< n{t} {times}) (begin (set! n{t} (+ n{t} 1)) ({fetch} (list 'again n{t}))) 'stop)
                         (if (< n{t} {times}) (begin (set! n{t} (+ n{t} 1)) ({fetch} (list 'again n{t}))) 'stop)
                         (reverse trail)",
                        def = def,
                        t = t,
                        store = store,
                        fetch = fetch,
                        times = times
                    ),
                );
            }
            4 => {
                names.push("tail-position-capture");
                reentry = times > 0;
                let (def, store, fetch, _) = storage(rng, t);
                p(
                    &mut forms,
                    &format!(
                        "{def}
                         (define n{t} 0)
                         (define (grab{t}) (call/cc (lambda (c) {store} {a})))
                         (* 2 (grab{t}))
                         (if (< n{t} {times}) (begin (set! n{t} (+ n{t} 1)) ({fetch} (+ n{t} {b}))) n{t})
                         (if (< n{t} {times}) (begin (set! n{t} (+ n{t} 1)) ({fetch} (+ n{t} {b}))) n{t})",
                        def = def,
                        t = t,
                        store = store,
                        fetch = fetch,
                        a = a,
                        b = b,
                        times = times
                    ),
                );
            }
            5 => {
                names.push("receiver-returns-normally");
                p(
                    &mut forms,
                    &format!(
                        "(call/cc (lambda (c) {a}))
                         (+ 1 (call/cc (lambda (c) (note {b}) (* 2 {a}))))
                         (call-with-current-continuation (lambda (c) (if (procedure? c) 'proc 'not-proc)))
                         (apply call/cc (list (lambda (c) (c {b}))))",
                        a = a,
                        b = b
                    ),
                );
            }
            6 => {
                // mutation between capture and re-entry stays visible
                names.push("mutation-since-capture");
                reentry = true;
                let (def, store, fetch, _) = storage(rng, t);
                p(
                    &mut forms,
                    &format!(
                        "{def}
                         (define n{t} 0)
                         (define var{t} 'initial)
                         (define pair{t} (list 'p {a}))
                         (let ((local 'local-initial))
                           (let ((got (call/cc (lambda (c) {store} 'captured))))
                             (let ((seen (list got var{t} (car (cdr pair{t})) local)))
                               (set! local (list 'changed got))
                               seen)))
                         (set! var{t} 'mutated)
                         (set-car! (cdr pair{t}) {b})
                         (if (< n{t} 2) (begin (set! n{t} (+ n{t} 1)) ({fetch} (list 'round n{t}))) 'stop)
                         (if (< n{t} 2) (begin (set! n{t} (+ n{t} 1)) ({fetch} (list 'round n{t}))) 'stop)",
                        def = def,
                        t = t,
                        store = store,
                        fetch = fetch,
                        a = a,
                        b = b
                    ),
                );
            }
            7 => {
                // capture inside a map callback, re-enter from a later form
                names.push("map-callback");
                reentry = true;
                let (def, store, fetch, _) = storage(rng, t);
                let at = rng.range(0, 3);
                p(
                    &mut forms,
                    &format!(
                        "{def}
                         (define n{t} 0)
                         (define kept{t} '())
                         (begin (set! kept{t} (cons (map (lambda (x) (* 10 (call/cc (lambda (c) (if (= x {at}) {store}) x)))) '(0 1 2 3)) kept{t})) (length kept{t}))
                         (if (< n{t} {times}) (begin (set! n{t} (+ n{t} 1)) ({fetch} (+ 50 n{t}))) 'stop)
                         (if (< n{t} {times}) (begin (set! n{t} (+ n{t} 1)) ({fetch} (+ 50 n{t}))) 'stop)
                         kept{t}",
                        def = def,
                        t = t,
                        store = store,
                        fetch = fetch,
                        at = at,
                        times = times
                    ),
                );
            }
            8 => {
                // for-each callback with ordered effects and an escape
                names.push("for-each-callback");
                p(
                    &mut forms,
                    &format!(
                        "(define (scan{t} lst stop) (call/cc (lambda (esc) (for-each (lambda (x) (display x) (if (= x stop) (esc (list 'stopped-at x)))) lst) 'completed)))
                         (scan{t} '(1 2 3 4) {s})
                         (scan{t} (c-build 3) 7)",
                        t = t,
                        s = rng.range(1, 5)
                    ),
                );
            }
            9 => {
                names.push("named-let-escape");
                p(
                    &mut forms,
                    &format!(
                        "(call/cc (lambda (break) (let loop ((i 0) (acc '())) (if (= i {a}) (break (list 'broke i acc))) (if (< i 60) (loop (+ i 1) (cons i acc)) 'ran-out))))",
                        a = a
                    ),
                );
            }
            10 => {
                names.push("nested-callcc");
                p(
                    &mut forms,
                    &format!(
                        "(call/cc (lambda (k1) (+ 1 (call/cc (lambda (k2) (k1 {a}))))))
                         (call/cc (lambda (k1) (+ 1 (call/cc (lambda (k2) (k2 {a}))))))
                         (+ (call/cc (lambda (k1) (+ 100 (k1 {b})))) (call/cc (lambda (k2) {a})))
                         (let ((r (call/cc (lambda (k) k)))) (if (procedure? r) (r {a}) (list 'second-time r)))",
                        a = a,
                        b = b
                    ),
                );
            }
            11 => {
                // a continuation invoked inside another continuation's extent
                names.push("inside-other-extent");
                reentry = true;
                p(
                    &mut forms,
                    &format!(
                        "(define outer{t} #f)
                         (define inner{t} #f)
                         (define n{t} 0)
                         (list 'outer (call/cc (lambda (c) (set! outer{t} c) 'o1)) (note 'after-outer))
                         (list 'inner (call/cc (lambda (c) (set! inner{t} c) 'i1)) (if (< n{t} 1) (begin (set! n{t} (+ n{t} 1)) (outer{t} 'o2)) 'inner-done))
                         (if (< n{t} 2) (begin (set! n{t} (+ n{t} 1)) (inner{t} 'i2)) (list 'end n{t}))
                         (reverse trail)",
                        t = t
                    ),
                );
            }
            12 => {
                // k passed down and invoked from deep non-tail recursion
                names.push("deep-escape");
                p(
                    &mut forms,
                    &format!(
                        "(define (deep{t} n c) (if (= n 0) (c (list 'bottom {b})) (+ 1 (deep{t} (- n 1) c))))
                         (call/cc (lambda (c) (deep{t} {a} c)))
                         (+ 5 (call/cc (lambda (c) (deep{t} 3 (lambda (v) 0)))))",
                        t = t,
                        a = a,
                        b = b
                    ),
                );
            }
            15 => {
                // re-entry from the very activation that captured k, with more operands pending at
                // the invocation than at the capture
                names.push("same-activation-reentry");
                p(
                    &mut forms,
                    &format!(
                        "(define (sameframe{t})
                           (define k #f)
                           (define n 0)
                           (define r (+ {a} (call/cc (lambda (c) (set! k c) 1))))
                           (set! n (+ n 1))
                           (if (< n 3) (list 7 8 (k (* n 10))) (list r n)))
                         (sameframe{t})
                         (define (samelet{t} z)
                           (let ((k #f) (n 0))
                             (let ((r (list 'r {b} (call/cc (lambda (c) (set! k c) z)))))
                               (set! n (+ n 1))
                               (if (< n 3) (vector 1 2 3 (k (list n z))) (list r n)))))
                         (samelet{t} 'zz)",
                        t = t,
                        a = a,
                        b = b
                    ),
                );
            }
            17 | 18 => {
                // two captures in one activation, the first one's value still a pending operand when
                // the second is taken; the first is re-entered with another value (which takes the
                // second capture again at the same place with the same registers), then the second
                // continuation is used: it must see the operand of its own pass
                names.push("two-captures-one-activation");
                reentry = true;
                p(
                    &mut forms,
                    &format!(
                        "(define ka{t} #f)
                         (define kb{t} #f)
                         (define n{t} 0)
                         (list 'two (call/cc (lambda (c) (set! ka{t} c) {a})) (call/cc (lambda (c) (set! kb{t} c) 7)))
                         (if (< n{t} 1) (begin (set! n{t} (+ n{t} 1)) (ka{t} 'second-pass)) 'skip)
                         (if (< n{t} 2) (begin (set! n{t} (+ n{t} 1)) (kb{t} 9)) 'skip)
                         (define (twocap{t} z)
                           (+ (* 100 (call/cc (lambda (c) (set! ka{t} c) z))) (* 10 {b}) (call/cc (lambda (c) (set! kb{t} c) 1))))
                         (set! n{t} 0)
                         (twocap{t} 2)
                         (if (< n{t} 2) (begin (set! n{t} (+ n{t} 1)) (ka{t} (+ n{t} 4))) 'skip)
                         (if (< n{t} 4) (begin (set! n{t} (+ n{t} 1)) (kb{t} 3)) 'skip)",
                        t = t,
                        a = a,
                        b = b % 10
                    ),
                );
            }
            19 | 20 => {
                // a parameter / let variable of an activation that is live at the capture is
                // assigned after the capture: re-entering must not roll the assignment back.
                // The capture happens in a callee, so the bodies themselves contain no lambda.
                names.push("local-mutation-since-capture");
                reentry = true;
                p(
                    &mut forms,
                    &format!(
                        "(define lk{t} #f)
                         (define ln{t} 0)
                         (define (lcapture{t}) (call/cc (lambda (c) (set! lk{t} c) 'first)))
                         (define (lcount{t} n) (lcapture{t}) (set! n (+ n 1)) n)
                         (lcount{t} {a})
                         (if (< ln{t} 3) (begin (set! ln{t} (+ ln{t} 1)) (lk{t} 'again)) (list 'stop ln{t}))
                         (if (< ln{t} 3) (begin (set! ln{t} (+ ln{t} 1)) (lk{t} 'again)) (list 'stop ln{t}))
                         (define (llet{t} z) (let ((v z) (w (list z))) (lcapture{t}) (set! v (* v 2)) (set-car! w (+ (car w) 1)) (list v w)))
                         (set! ln{t} 0)
                         (llet{t} {b})
                         (if (< ln{t} 2) (begin (set! ln{t} (+ ln{t} 1)) (lk{t} 'again)) (list 'stop ln{t}))
                         (if (< ln{t} 2) (begin (set! ln{t} (+ ln{t} 1)) (lk{t} 'again)) (list 'stop ln{t}))",
                        t = t,
                        a = a,
                        b = b
                    ),
                );
            }
            21 | 22 => {
                // the object handed to a continuation is the very object the call/cc expression
                // yields: mutation through either reference is seen through the other
                names.push("aggregate-through-k");
                reentry = true;
                p(
                    &mut forms,
                    &format!(
                        "(define ak{t} #f)
                         (define ap{t} (list {a} 2 3))
                         (define av{t} (vector {b} 'v))
                         (define aq{t} (call/cc (lambda (c) (set! ak{t} c) (list 'initial))))
                         aq{t}
                         (if (eq? (car aq{t}) 'initial) (ak{t} ap{t}) 'second-pass)
                         (begin (set-car! aq{t} 'x) (set-cdr! (cdr ap{t}) '(tail)) (list ap{t} aq{t}))
                         (define ar{t} (call/cc (lambda (c) (c av{t}))))
                         (begin (vector-set! ar{t} 1 'changed) (list av{t} (eq? ar{t} av{t})))
                         (define (amk{t}) (let ((n 0)) (lambda () (set! n (+ n 1)) n)))
                         (define ag{t} (amk{t}))
                         (define ah{t} (call/cc (lambda (c) (for-each (lambda (x) (if (procedure? x) (c x))) (list 1 ag{t} 2)) 'none)))
                         (list (ah{t}) (ag{t}) (ah{t}) (eq? ah{t} ag{t}))",
                        t = t,
                        a = a,
                        b = b
                    ),
                );
            }
            23 | 24 => {
                // a continuation k1 captured in an activation that has returned is kept only in a
                // local of another activation, which in turn is kept only by a second continuation
                // k2 (a global): k1 is reachable through k2's saved state alone. k2 is re-entered
                // from later forms and invokes k1.
                names.push("continuation-held-by-continuation");
                reentry = true;
                p(
                    &mut forms,
                    &format!(
                        "(define nsaved{t} #f)
                         (define (ng{t} x) (let ((v (list x (* x 10) 'payload))) (let ((r (call/cc (lambda (c) c)))) (if (procedure? r) r (+ r (car (cdr v)))))))
                         (define (nf{t}) (let ((k1 (ng{t} {a}))) (if (procedure? k1) (let ((n (call/cc (lambda (c) (set! nsaved{t} c) 0)))) (if (= n 0) 'armed (k1 n))) (list 'delivered k1))))
                         (nf{t})
                         (c-build {b})
                         (nsaved{t} 5)
                         (c-build {b})
                         (nsaved{t} 7)",
                        t = t,
                        a = a,
                        b = 20 + b
                    ),
                );
            }
            25 | 26 => {
                // a continuation captured in the init of a binding and re-entered with other values:
                // every pass through let / let* / a lambda application binds a fresh variable (closures
                // of earlier passes keep theirs); an internal definition assigns the one variable of
                // its activation again
                names.push("binder-init-reentry");
                reentry = true;
                let binder = match rng.below(5) {
                    0 => "(let ((a 10) (b (+ 100 (call/cc (lambda (c) (set! bk{t} c) 1))))) BODY)",
                    1 => "(let* ((a 10) (b (+ a (call/cc (lambda (c) (set! bk{t} c) 1))))) BODY)",
                    2 => "(let* ((a 10) (z 5) (b (+ a z (call/cc (lambda (c) (set! bk{t} c) 1))))) BODY)",
                    3 => "((lambda (a b) BODY) 10 (+ 100 (call/cc (lambda (c) (set! bk{t} c) 1))))",
                    _ => "(let ((a 10)) (define b (+ a (call/cc (lambda (c) (set! bk{t} c) 1)))) BODY)",
                };
                let body = "(begin (set! bclos{t} (cons (lambda () (list a b)) bclos{t})) (set! b (+ b 1000)) (length bclos{t}))";
                let text = format!(
                    "(define bk{t} #f)
                     (define bclos{t} '())
                     (define (bpass{t}) {binder})
                     (bpass{t})
                     (if (< (length bclos{t}) 3) (bk{t} (* 10 (length bclos{t}))) 'done)
                     (if (< (length bclos{t}) 3) (bk{t} (* 10 (length bclos{t}))) 'done)
                     (map (lambda (p) (p)) bclos{t})",
                    t = t,
                    binder = binder.replace("BODY", body).replace("{t}", &t.to_string())
                );
                p(&mut forms, &text);
            }
            27 | 28 => {
                // a continuation captured in one iteration of a loop and re-entered after the loop
                // has gone on: the resumed iteration reads its own loop variables
                names.push("capture-in-loop-iteration");
                reentry = true;
                let cap = format!("(if (= i {at}) (call/cc (lambda (c) (set! ik{t} c) i)) i)", at = 1 + (a % 3), t = t);
                let def = match rng.below(4) {
                    0 => format!("(define (iloop{t} i acc) (if (= i 5) (reverse acc) (iloop{t} (+ i 1) (cons (list {cap} i) acc))))", t = t, cap = cap),
                    1 => format!("(define (iloop{t} i acc) (cond ((= i 5) (reverse acc)) (else (iloop{t} (+ i 1) (cons (list {cap} i) acc)))))", t = t, cap = cap),
                    2 => format!("(define (iloop{t} i0 acc0) (let loop ((i i0) (acc acc0)) (if (= i 5) (reverse acc) (loop (+ i 1) (cons (list {cap} i) acc)))))", t = t, cap = cap),
                    _ => format!(
                        "(define (iloop{t} i acc) (if (= i 5) (reverse acc) (iloop{t}-b (+ i 1) (cons (list {cap} i) acc))))
                         (define (iloop{t}-b i acc) (if (= i 5) (reverse acc) (iloop{t} (+ i 1) (cons (list {cap} i) acc))))",
                        t = t,
                        cap = cap
                    ),
                };
                p(
                    &mut forms,
                    &format!(
                        "(define ik{t} #f)
                         (define in{t} 0)
                         {def}
                         (iloop{t} 0 '())
                         (if (< in{t} 2) (begin (set! in{t} (+ in{t} 1)) (ik{t} (* in{t} 100))) 'stop)
                         (if (< in{t} 2) (begin (set! in{t} (+ in{t} 1)) (ik{t} (* in{t} 100))) 'stop)",
                        t = t,
                        def = def
                    ),
                );
            }
            29 | 30 => {
                // a continuation is a procedure: it can itself be the receiver of call/cc (control
                // is handed over together with the current continuation, as coroutines do)
                names.push("continuation-as-receiver");
                reentry = true;
                p(
                    &mut forms,
                    &format!(
                        "(procedure? (call/cc (call/cc (lambda (k) k))))
                         (define resume{t} #f)
                         (define log{t} '())
                         (define (producer{t} back) (set! log{t} (cons 'produced log{t})) (back {a}))
                         (define (consumer{t}) (set! log{t} (cons 'waiting log{t})) (+ 100 (call/cc resume{t})))
                         (set! resume{t} producer{t})
                         (consumer{t})
                         (define k0{t} #f)
                         (define seen{t} '())
                         (let ((v (call/cc (lambda (c) (set! k0{t} c) 'first)))) (set! seen{t} (cons (if (procedure? v) 'a-continuation v) seen{t})) (length seen{t}))
                         (if (< (length seen{t}) 2) (+ 1000 (call/cc k0{t})) 'done)
                         (list log{t} seen{t})",
                        t = t,
                        a = a
                    ),
                );
            }
            31 | 32 => {
                // a continuation captured in the key / test / operand position of a derived form is
                // re-entered with values that select other branches: the key expression is evaluated
                // once per pass and the branch is chosen afresh from the first clause
                names.push("capture-in-derived-form-test");
                reentry = true;
                let cap = format!("(call/cc (lambda (c) (set! dk{t} c) (set! dcount{t} (+ dcount{t} 1)) 1))", t = t);
                let body = match rng.below(6) {
                    0 => format!("(case {cap} ((1) 'one) ((2) 'two) ((3 4) 'three-or-four) (else 'other))", cap = cap),
                    1 => format!("(case (+ 0 {cap}) ((4) 'four) ((3) 'three) ((2) 'two) ((1) 'one) (else 'other))", cap = cap),
                    2 => format!("(cond ((= {cap} 1) 'one) ((= dn{t} 1) 'second-clause) (else (list 'else dn{t})))", cap = cap, t = t),
                    3 => format!("(and {cap} (list 'and-continued dn{t}))", cap = cap, t = t),
                    4 => format!("(or (= 3 {cap}) (list 'or-continued dn{t}))", cap = cap, t = t),
                    _ => format!("(let* ((a {cap}) (b (* a 10))) (when (> a 0) (list a b)))", cap = cap),
                };
                p(
                    &mut forms,
                    &format!(
                        "(define dk{t} #f)
                         (define dn{t} 0)
                         (define dcount{t} 0)
                         (define (dpick{t}) {body})
                         (list (dpick{t}))
                         (if (< dn{t} 3) (begin (set! dn{t} (+ dn{t} 1)) (dk{t} (+ dn{t} 1))) 'stop)
                         (if (< dn{t} 3) (begin (set! dn{t} (+ dn{t} 1)) (dk{t} (+ dn{t} 1))) 'stop)
                         (if (< dn{t} 3) (begin (set! dn{t} (+ dn{t} 1)) (dk{t} (+ dn{t} 1))) 'stop)
                         (list dn{t} dcount{t})",
                        t = t,
                        body = body
                    ),
                );
            }
            33 | 34 => {
                // a parameterless procedure with internal definitions is activated several times;
                // a continuation captured in an earlier activation is re-entered after a later
                // activation has run: it resumes with the variables of its own activation
                names.push("capture-in-parameterless-activation");
                reentry = true;
                p(
                    &mut forms,
                    &format!(
                        "(define pks{t} '())
                         (define pn{t} 0)
                         (define (pmk{t}) (lambda () (define serial (+ 1 (length pks{t}))) (define mine (list 'mine serial)) (define v (call/cc (lambda (c) (set! pks{t} (append pks{t} (list c))) 'first))) (set! mine (cons v mine)) (list serial mine)))
                         (define pthunk{t} (pmk{t}))
                         (pthunk{t})
                         (pthunk{t})
                         (if (< pn{t} 2) (begin (set! pn{t} (+ pn{t} 1)) ((car pks{t}) (list 'again pn{t}))) 'stop)
                         (pthunk{t})
                         (if (< pn{t} 2) (begin (set! pn{t} (+ pn{t} 1)) ((car (cdr pks{t})) (list 'again pn{t}))) 'stop)
                         (length pks{t})",
                        t = t
                    ),
                );
            }
            35 | 36 => {
                // a continuation captured inside the callback of for-each / map while the traversal
                // is at one element is re-entered after the traversal has moved on or has finished
                // (from a later callback of the same traversal, or from a later form): the
                // traversal resumes from the element it was at when the capture happened
                names.push("reentry-into-traversal-callback");
                reentry = true;
                let at = rng.range(1, 4);
                let two = rng.chance(1, 3);
                let (params, lists, note) = if two {
                    ("x y", "'(1 2 3 4) '(a b c d e)", "(cons x y)")
                } else {
                    ("x", "'(1 2 3 4)", "x")
                };
                let from_callback = rng.chance(1, 2);
                let jump_back = if from_callback {
                    format!("(if (and (= x 4) (< tn{t} 1)) (begin (set! tn{t} (+ tn{t} 1)) (tk{t} 'back)))", t = t)
                } else {
                    String::new()
                };
                // for-each only: the order in which map applies its procedure is unspecified
                let walker = "for-each";
                p(
                    &mut forms,
                    &format!(
                        "(define tk{t} #f)
                         (define tn{t} 0)
                         (define tseen{t} '())
                         (define tres{t} ({walker} (lambda ({params}) (call/cc (lambda (c) (if (= x {at}) (set! tk{t} c)))) (set! tseen{t} (cons {note} tseen{t})) {jump_back} (* x 10)) {lists}))
                         tseen{t}
                         (if (< tn{t} 2) (begin (set! tn{t} (+ tn{t} 1)) (tk{t} 'again)) (list 'stop tseen{t}))
                         tseen{t}
                         (if (< tn{t} 2) (begin (set! tn{t} (+ tn{t} 1)) (tk{t} 'again)) (list 'stop tseen{t}))
                         (list tn{t} tseen{t} (if (pair? tres{t}) tres{t} 'no-list))",
                        t = t, walker = walker, params = params, at = at, note = note, jump_back = jump_back, lists = lists
                    ),
                );
            }
            13 | 14 => {
                // a continuation captured at the bottom of a deep non-tail recursion (large saved
                // stack), kept in a global and re-entered from later forms
                names.push("deep-capture-reentry");
                reentry = true;
                let depth = rng.range(20, 140);
                let (def, store, fetch, _) = storage(rng, t);
                p(
                    &mut forms,
                    &format!(
                        "{def}
                         (define n{t} 0)
                         (define (deepcap{t} n) (if (= n 0) (call/cc (lambda (c) {store} 0)) (+ 1 (deepcap{t} (- n 1)))))
                         (deepcap{t} {depth})
                         (c-build {b})
                         (if (< n{t} {times}) (begin (set! n{t} (+ n{t} 1)) ({fetch} (* n{t} 1000))) (list 'stop n{t}))
                         (if (< n{t} {times}) (begin (set! n{t} (+ n{t} 1)) ({fetch} (* n{t} 1000))) (list 'stop n{t}))",
                        def = def,
                        t = t,
                        store = store,
                        fetch = fetch,
                        depth = depth,
                        b = b % 9,
                        times = times
                    ),
                );
            }
            _ => {
                // re-entry from inside a loop of a later form, bounded by a counter
                names.push("reentry-from-loop");
                reentry = true;
                let (def, store, fetch, _) = storage(rng, t);
                p(
                    &mut forms,
                    &format!(
                        "{def}
                         (define n{t} 0)
                         (define log{t} '())
                         (begin (set! log{t} (cons (call/cc (lambda (c) {store} 'start)) log{t})) (reverse log{t}))
                         (let loop ((i 0)) (if (< i 5) (begin (if (and (= i 2) (< n{t} {times})) (begin (set! n{t} (+ n{t} 1)) ({fetch} (list 'from-loop n{t})))) (loop (+ i 1))) (list 'loop-done n{t})))
                         (reverse log{t})",
                        def = def,
                        t = t,
                        store = store,
                        fetch = fetch,
                        times = times
                    ),
                );
            }
        }
    }
    p(&mut forms, "(reverse trail)");
    Generated {
        forms,
        templates: names,
        reentry_planned: reentry,
    }
}
