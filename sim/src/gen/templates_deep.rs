//! Deep live structures (DESIGN §5 C03): objects whose only path from the roots runs through
//! more than a thousand non-cdr edges (car nesting, vector nesting, closure → environment →
//! closure chains, continuation chains). Depths are drawn around powers of two so that a bound
//! or a fast path keyed on a size (256, 1024, 4096) is crossed in both directions.
use crate::gen::templates::Template;
use crate::rng::Rng;

/// a depth near a power of two, or anywhere in [lo, hi]
pub fn boundary_depth(rng: &mut Rng, lo: usize, hi: usize) -> usize {
    if rng.chance(1, 2) {
        let mut candidates = vec![];
        let mut p = 64usize;
        while p <= hi * 2 {
            for d in [p - 1, p, p + 1, p + p / 2] {
                if d >= lo && d <= hi {
                    candidates.push(d);
                }
            }
            p *= 2;
        }
        if !candidates.is_empty() {
            return candidates[rng.usize(candidates.len())];
        }
    }
    rng.range(lo as i64, hi as i64) as usize
}

pub fn deep_prelude() -> Vec<String> {
    vec![
        // snoc chain: depth through car, the cdr carries a payload that must survive too
        "(define (d-car-nest n) (let loop ((i 0) (acc '())) (if (< i n) (loop (+ i 1) (cons acc (list i))) acc)))".to_string(),
        "(define (d-car-depth x) (let loop ((x x) (d 0) (s 0)) (if (pair? x) (loop (car x) (+ d 1) (+ s (car (cdr x)))) (list d s))))".to_string(),
        "(define (d-vec-nest n) (let loop ((i 0) (acc 'bottom)) (if (< i n) (loop (+ i 1) (vector i acc (number->string i))) acc)))".to_string(),
        "(define (d-vec-depth x) (let loop ((x x) (d 0) (s 0)) (if (vector? x) (loop (vector-ref x 1) (+ d 1) (+ s (string-length (vector-ref x 2)))) (list d s x))))".to_string(),
        // closure chain: each closure's environment holds the previous closure
        "(define (d-closure-chain n) (let loop ((i 0) (f (lambda (d) d))) (if (< i n) (loop (+ i 1) (let ((prev f) (tag i)) (lambda (d) (if (eq? d 'tag) tag (prev (+ d 1)))))) f)))".to_string(),
        "(define (d-churn n) (let loop ((i 0)) (if (< i n) (begin (cons i (make-vector 3 i)) (loop (+ i 1))) 'churned)))".to_string(),
    ]
}

pub fn car_nest(rng: &mut Rng, tag: usize) -> Template {
    let n = boundary_depth(rng, 200, 3000);
    Template {
        name: "deep-car-nest",
        forms: vec![
            format!("(define dcar{} (d-car-nest {}))", tag, n),
            format!("(d-churn {})", rng.range(50, 600)),
            format!("(d-car-depth dcar{})", tag),
            format!("(d-churn {})", rng.range(50, 600)),
            format!("(d-car-depth dcar{})", tag),
        ],
    }
}

pub fn vec_nest(rng: &mut Rng, tag: usize) -> Template {
    let n = boundary_depth(rng, 200, 3000);
    Template {
        name: "deep-vector-nest",
        forms: vec![
            format!("(define dvec{} (d-vec-nest {}))", tag, n),
            format!("(d-churn {})", rng.range(50, 600)),
            format!("(d-vec-depth dvec{})", tag),
            format!("(d-churn {})", rng.range(50, 600)),
            format!("(d-vec-depth dvec{})", tag),
        ],
    }
}

pub fn closure_chain(rng: &mut Rng, tag: usize) -> Template {
    let n = boundary_depth(rng, 100, 1500);
    Template {
        name: "deep-closure-chain",
        forms: vec![
            format!("(define dclo{} (d-closure-chain {}))", tag, n),
            format!("(d-churn {})", rng.range(50, 600)),
            format!("(dclo{} 0)", tag),
            format!("(dclo{} 'tag)", tag),
            format!("(d-churn {})", rng.range(50, 600)),
            format!("(dclo{} 0)", tag),
        ],
    }
}

pub fn deep_session(rng: &mut Rng) -> (Vec<String>, Vec<&'static str>) {
    let mut forms = deep_prelude();
    let mut names = vec![];
    let n = 1 + rng.usize(2);
    for tag in 0..n {
        let t = match rng.below(3) {
            0 => car_nest(rng, tag),
            1 => vec_nest(rng, tag),
            _ => closure_chain(rng, tag),
        };
        names.push(t.name);
        forms.extend(t.forms);
    }
    (forms, names)
}
