//! G14 — operation sequences over an aliased pool of lists and vectors (DESIGN §5 C14).
//! The generator runs the reference machine online so that it can choose arguments by the
//! actual shape of the pool (valid and boundary indices, aliases, no cycles).
use crate::refscheme::machine::{Machine, RefOutcome};
use crate::refscheme::value::V;
use crate::rng::Rng;
use crate::sx::{read_one, Sx};
use std::collections::HashSet;
use std::rc::Rc;

pub const POOL: usize = 8;

#[derive(Clone, Debug, PartialEq)]
enum Shape {
    Nil,
    /// proper list with n pairs
    List(usize),
    /// improper list with n pairs
    Improper(usize),
    Vector(usize),
    Scalar,
}

fn shape(v: &V) -> Shape {
    match v {
        V::Nil => Shape::Nil,
        V::Vector(x) => Shape::Vector(x.items.borrow().len()),
        V::Pair(_) => {
            let mut n = 0;
            let mut cur = v.clone();
            loop {
                match cur {
                    V::Pair(p) => {
                        n += 1;
                        let next = p.cdr.borrow().clone();
                        cur = next;
                        if n > 100_000 {
                            return Shape::Improper(n);
                        }
                    }
                    V::Nil => return Shape::List(n),
                    _ => return Shape::Improper(n),
                }
            }
        }
        _ => Shape::Scalar,
    }
}

fn ptr_of(v: &V) -> Option<usize> {
    match v {
        V::Pair(p) => Some(Rc::as_ptr(p) as *const u8 as usize),
        V::Vector(p) => Some(Rc::as_ptr(p) as *const u8 as usize),
        _ => None,
    }
}

/// all aggregate objects reachable from v
fn reachable(v: &V, seen: &mut HashSet<usize>) {
    let mut work = vec![v.clone()];
    while let Some(x) = work.pop() {
        if let Some(p) = ptr_of(&x) {
            if !seen.insert(p) {
                continue;
            }
        }
        match &x {
            V::Pair(p) => {
                work.push(p.car.borrow().clone());
                work.push(p.cdr.borrow().clone());
            }
            V::Vector(vv) => {
                for it in vv.items.borrow().iter() {
                    work.push(it.clone());
                }
            }
            _ => {}
        }
    }
}

fn size_of(v: &V) -> usize {
    let mut s = HashSet::new();
    reachable(v, &mut s);
    s.len()
}

pub struct G14<'a> {
    rng: &'a mut Rng,
    model: Machine,
    pub forms: Vec<Sx>,
    marker: usize,
    pub alias_mutations: usize,
    pub ops: Vec<&'static str>,
}

struct Cand {
    expr: String,
    value: V,
    shape: Shape,
}

const SCALARS: [&str; 12] = ["0", "1", "-7", "42", "'a", "'b", "'zed", "#t", "#f", "#\\x", "'()", "\"str\""];
const KEYS: [&str; 9] = ["0", "1", "42", "'a", "'b", "'zed", "#t", "#\\x", "'()"];

impl<'a> G14<'a> {
    pub fn new(rng: &'a mut Rng) -> G14<'a> {
        G14 {
            rng,
            model: Machine::new(),
            forms: vec![],
            marker: 0,
            alias_mutations: 0,
            ops: vec![],
        }
    }

    fn emit(&mut self, text: &str) -> RefOutcome {
        let sx = read_one(text).unwrap_or_else(|e| panic!("g14 text does not read: {}: {}", e, text));
        let r = self.model.run_form(&sx);
        self.forms.push(sx);
        r.outcome
    }

    fn eval_in_model(&mut self, text: &str) -> Option<V> {
        // evaluate an accessor expression without recording it; uses a scratch global
        let sx = read_one(&format!("(define %scratch {})", text)).ok()?;
        let r = self.model.run_form(&sx);
        match r.outcome {
            RefOutcome::Value(_) => self.model.globals.get("%scratch").map(|l| l.borrow().clone()),
            _ => None,
        }
    }

    fn scalar(&mut self) -> String {
        self.rng.pick_str(&SCALARS).to_string()
    }

    fn dump(&mut self) {
        let names: Vec<String> = (0..POOL).map(|i| format!("p{}", i)).collect();
        self.emit(&format!("(list {})", names.join(" ")));
    }

    fn init_pool(&mut self) {
        let s: Vec<String> = (0..12).map(|_| self.scalar()).collect();
        let inits = vec![
            format!("(define p0 (list {} {} {} {}))", s[0], s[1], s[2], s[3]),
            format!("(define p1 (cons {} (cons {} {})))", s[4], s[5], if self.rng.chance(1, 2) { "'tail".to_string() } else { s[6].clone() }),
            "(define p2 (cons 'shared-head (cdr p0)))".to_string(),
            format!("(define p3 (vector {} {} {}))", s[7], s[8], s[9]),
            "(define p4 (vector))".to_string(),
            format!("(define p5 (vector (list {} {}) (vector {}) p0))", s[10], s[11], s[0]),
            "(define p6 (list (cons 'a 1) (cons 'b (list 2 3)) (cons 1 'one) (cons (list 'k) 'listkey) (cons (vector 'vk 1) 'veckey) (cons (vector) 'emptyvec) (cons \"skey\" (vector 'in 'cdr))))".to_string(),
            match self.rng.below(4) {
                0 => "(define p7 '())".to_string(),
                1 => format!("(define p7 {})", s[2]),
                2 => "(define p7 (list (list 1 2) (vector 1 2) (vector) \"str\" (vector (list 1) 2) (list (vector 1 2)) p3))".to_string(),
                _ => "(define p7 (list 'only))".to_string(),
            },
        ];
        for i in inits {
            self.emit(&i);
        }
        // sometimes two pool objects are large, with a length next to a power of two: a fast path or
        // a bound keyed on a size is crossed in both directions
        if self.rng.chance(1, 6) {
            const SIZES: [usize; 15] = [15, 16, 17, 31, 32, 33, 63, 64, 65, 127, 128, 129, 255, 256, 257];
            let k = SIZES[self.rng.usize(SIZES.len())];
            let k2 = SIZES[self.rng.usize(SIZES.len())];
            self.emit("(define (%iota n) (let loop ((i n) (acc '())) (if (= i 0) acc (loop (- i 1) (cons i acc)))))");
            self.emit(&format!("(define p7 (%iota {}))", k));
            if self.rng.chance(1, 2) {
                self.emit(&format!("(define p4 (list->vector (%iota {})))", k2));
            } else {
                self.emit(&format!("(define p4 (make-vector {} 'f))", k2));
            }
        }
        self.dump();
    }

    fn candidates(&mut self) -> Vec<Cand> {
        let mut out = vec![];
        for i in 0..POOL {
            let name = format!("p{}", i);
            let v = match self.model.globals.get(&name) {
                Some(l) => l.borrow().clone(),
                None => continue,
            };
            let sh = shape(&v);
            let mut exprs = vec![];
            match &sh {
                Shape::List(n) | Shape::Improper(n) => {
                    exprs.push(format!("(cdr {})", name));
                    exprs.push(format!("(car {})", name));
                    if *n >= 2 {
                        exprs.push(format!("(list-tail {} {})", name, n - 1));
                        exprs.push(format!("(car (cdr {}))", name));
                    }
                }
                Shape::Vector(n) if *n > 0 => {
                    exprs.push(format!("(vector-ref {} 0)", name));
                    exprs.push(format!("(vector-ref {} {})", name, n - 1));
                }
                _ => {}
            }
            out.push(Cand {
                expr: name,
                value: v,
                shape: sh,
            });
            for e in exprs {
                if let Some(v) = self.eval_in_model(&e) {
                    let sh = shape(&v);
                    if !matches!(sh, Shape::Scalar) {
                        out.push(Cand {
                            expr: e,
                            value: v,
                            shape: sh,
                        });
                    }
                }
            }
        }
        out
    }

    fn index_near(&mut self, len: usize) -> String {
        let len = len as i64;
        match self.rng.below(12) {
            0 => "-1".into(),
            1 => "0".into(),
            2 => "1".into(),
            3 => format!("{}", len - 1),
            4 => format!("{}", len),
            5 => format!("{}", len + 1),
            6 => "2147483648".into(),
            7 => "9223372036854775808".into(),
            _ => format!("{}", self.rng.range(0, (len - 1).max(0))),
        }
    }

    fn pick<'b>(&mut self, cands: &'b [Cand], pred: fn(&Shape) -> bool) -> Option<&'b Cand> {
        let idx: Vec<usize> = cands.iter().enumerate().filter(|(_, c)| pred(&c.shape)).map(|(i, _)| i).collect();
        if idx.is_empty() {
            None
        } else {
            Some(&cands[idx[self.rng.usize(idx.len())]])
        }
    }

    fn target(&mut self) -> String {
        format!("p{}", self.rng.usize(POOL))
    }

    fn would_cycle(container: &V, value: &V) -> bool {
        let mut seen = HashSet::new();
        reachable(value, &mut seen);
        match ptr_of(container) {
            Some(p) => seen.contains(&p),
            None => false,
        }
    }

    fn value_arg(&mut self, cands: &[Cand]) -> (String, Option<V>) {
        if self.rng.chance(1, 2) {
            (self.scalar(), None)
        } else {
            let c = &cands[self.rng.usize(cands.len())];
            (c.expr.clone(), Some(c.value.clone()))
        }
    }

    fn one_op(&mut self) {
        let cands = self.candidates();
        let total: usize = (0..POOL)
            .filter_map(|i| self.model.globals.get(&format!("p{}", i)).map(|l| size_of(&l.borrow())))
            .sum();
        let is_listy = |s: &Shape| matches!(s, Shape::List(_) | Shape::Improper(_) | Shape::Nil);
        let is_pair = |s: &Shape| matches!(s, Shape::List(n) | Shape::Improper(n) if *n > 0);
        let is_vec = |s: &Shape| matches!(s, Shape::Vector(_));
        let is_proper = |s: &Shape| matches!(s, Shape::List(_) | Shape::Nil);
        let choice = self.rng.below(30);
        let text: Option<(String, &'static str)> = match choice {
            0 => {
                let (a, _) = self.value_arg(&cands);
                let (b, _) = self.value_arg(&cands);
                Some((format!("(define {} (cons {} {}))", self.target(), a, b), "cons"))
            }
            1 => self.pick(&cands, is_pair).map(|c| c.expr.clone()).map(|e| {
                (format!("(define {} ({} {}))", self.target(), if self.rng.chance(1, 2) { "car" } else { "cdr" }, e), "car/cdr")
            }),
            2 => {
                let n = self.rng.usize(4);
                let args: Vec<String> = (0..n).map(|_| self.value_arg(&cands).0).collect();
                Some((format!("(define {} (list {}))", self.target(), args.join(" ")), "list"))
            }
            3 => self.pick(&cands, is_listy).map(|c| (format!("(length {})", c.expr), "length")),
            4 | 5 => {
                if total > 1500 {
                    None
                } else {
                    let n = self.rng.usize(4);
                    let mut args = vec![];
                    for _ in 0..n {
                        if let Some(c) = self.pick(&cands, is_listy) {
                            args.push(c.expr.clone());
                        }
                    }
                    // the last argument may be anything
                    if self.rng.chance(1, 3) {
                        args.push(self.value_arg(&cands).0);
                    }
                    Some((format!("(define {} (append {}))", self.target(), args.join(" ")), "append"))
                }
            }
            6 => self.pick(&cands, is_listy).map(|c| (format!("(define {} (reverse {}))", "pX", c.expr), "reverse")).map(|(t, n)| (t.replace("pX", &self.target()), n)),
            7 | 8 => self.pick(&cands, is_listy).map(|c| (c.expr.clone(), c.shape.clone())).map(|(e, sh)| {
                let len = match sh {
                    Shape::List(n) | Shape::Improper(n) => n,
                    _ => 0,
                };
                let k = self.index_near(len);
                if self.rng.chance(1, 2) {
                    (format!("(define {} (list-tail {} {}))", self.target(), e, k), "list-tail")
                } else {
                    (format!("(list-ref {} {})", e, k), "list-ref")
                }
            }),
            9 | 10 => self.pick(&cands, is_listy).map(|c| c.expr.clone()).map(|e| {
                let proc = *self.rng.pick(&["memq", "memv", "member"]);
                let key = if proc == "member" && self.rng.chance(1, 2) {
                    // keys that equal? compares by content: fresh lists, vectors (empty, flat, nested) and strings
                    self.rng.pick_str(&["(list 1 2)", "(vector 1 2)", "(vector)", "(vector (list 1) 2)", "\"str\"", "(list (vector 1 2))"]).to_string()
                } else {
                    self.rng.pick_str(&KEYS).to_string()
                };
                (format!("(define {} ({} {} {}))", self.target(), proc, key, e), "mem*")
            }),
            11 => {
                // association lists: p6 and lists of pairs
                let proc = *self.rng.pick(&["assq", "assv", "assoc"]);
                let key = if proc == "assoc" && self.rng.chance(1, 2) {
                    self.rng.pick_str(&["(list 'k)", "(vector 'vk 1)", "(vector)", "\"skey\""]).to_string()
                } else {
                    self.rng.pick_str(&KEYS).to_string()
                };
                Some((format!("(define {} ({} {} p6))", self.target(), proc, key), "ass*"))
            }
            12 => self.pick(&cands, is_listy).map(|c| c.expr.clone()).map(|e| {
                let f = *self.rng.pick(&["(lambda (x) x)", "(lambda (x) (cons x x))", "(lambda (x) (list x))", "(lambda (x) (if (pair? x) (car x) x))"]);
                (format!("(define {} (map {} {}))", self.target(), f, e), "map")
            }),
            13 => {
                // two-list map, possibly unequal lengths
                let a = self.pick(&cands, is_proper).map(|c| c.expr.clone());
                let b = self.pick(&cands, is_proper).map(|c| c.expr.clone());
                match (a, b) {
                    (Some(a), Some(b)) => Some((format!("(define {} (map cons {} {}))", self.target(), a, b), "map2")),
                    _ => None,
                }
            }
            14 => self.pick(&cands, is_listy).map(|c| c.expr.clone()).map(|e| {
                self.marker += 1;
                // what the procedure returns is of no concern to for-each: every element is visited
                let body = match self.rng.below(4) {
                    0 => format!("(if (pair? x) (set-car! x 'fe{}))", self.marker),
                    1 => format!("(and (pair? x) (begin (set-car! x 'fe{}) #f))", self.marker),
                    2 => format!("(if (pair? x) (set-car! x 'fe{})) #f", self.marker),
                    _ => format!("(if (pair? x) (begin (set-car! x 'fe{}) (eq? x 'never)) '())", self.marker),
                };
                (format!("(for-each (lambda (x) {}) {})", body, e), "for-each")
            }),
            15 => self.pick(&cands, |_| true).map(|c| (format!("(list? {})", c.expr), "list?")),
            16 => {
                let n = self.rng.usize(4);
                let args: Vec<String> = (0..n).map(|_| self.value_arg(&cands).0).collect();
                Some((format!("(define {} (vector {}))", self.target(), args.join(" ")), "vector"))
            }
            17 => {
                let k = *self.rng.pick(&["0", "1", "3", "-1"]);
                let (fill, _) = self.value_arg(&cands);
                Some((format!("(define {} (make-vector {} {}))", self.target(), k, fill), "make-vector"))
            }
            18 | 19 => self.pick(&cands, is_vec).map(|c| (c.expr.clone(), c.shape.clone())).map(|(e, sh)| {
                let len = if let Shape::Vector(n) = sh { n } else { 0 };
                let k = self.index_near(len);
                if self.rng.chance(1, 3) {
                    (format!("(vector-length {})", e), "vector-length")
                } else {
                    (format!("(define {} (vector-ref {} {}))", self.target(), e, k), "vector-ref")
                }
            }),
            20 | 21 => match self.pick(&cands, is_vec).map(|c| (c.expr.clone(), c.shape.clone(), c.value.clone())) {
                Some((e, sh, cv)) => {
                    let len = if let Shape::Vector(n) = sh { n } else { 0 };
                    let k = self.index_near(len);
                    let (val, vv) = self.value_arg(&cands);
                    if vv.as_ref().map(|v| Self::would_cycle(&cv, v)).unwrap_or(false) {
                        None
                    } else if self.rng.chance(1, 3) {
                        Some((format!("(vector-fill! {} {})", e, val), "vector-fill!"))
                    } else {
                        Some((format!("(vector-set! {} {} {})", e, k, val), "vector-set!"))
                    }
                }
                None => None,
            },
            22 => self.pick(&cands, is_vec).map(|c| (format!("(define {} (vector->list {}))", "pX", c.expr), "vector->list")).map(|(t, n)| (t.replace("pX", &self.target()), n)),
            23 => self.pick(&cands, is_listy).map(|c| (format!("(define {} (list->vector {}))", "pX", c.expr), "list->vector")).map(|(t, n)| (t.replace("pX", &self.target()), n)),
            24 | 25 => self.pick(&cands, is_vec).map(|c| (c.expr.clone(), c.shape.clone())).map(|(e, sh)| {
                let len = if let Shape::Vector(n) = sh { n } else { 0 };
                if self.rng.chance(1, 3) {
                    (format!("(define {} (vector-copy {}))", self.target(), e), "vector-copy")
                } else {
                    let k = self.index_near(len);
                    (format!("(define {} (vector-copy {} {}))", self.target(), e, k), "vector-copy-start")
                }
            }),
            26 | 27 => {
                let to = self.pick(&cands, is_vec).map(|c| (c.expr.clone(), c.shape.clone(), c.value.clone()));
                let from = self.pick(&cands, is_vec).map(|c| (c.expr.clone(), c.shape.clone(), c.value.clone()));
                match (to, from) {
                    (Some((te, tsh, tv)), Some((fe, fsh, fv))) => {
                        let tl = if let Shape::Vector(n) = tsh { n } else { 0 };
                        let fl = if let Shape::Vector(n) = fsh { n } else { 0 };
                        // copying elements that contain the destination would create a cycle
                        let mut inner = HashSet::new();
                        if let V::Vector(fvv) = &fv {
                            for it in fvv.items.borrow().iter() {
                                reachable(it, &mut inner);
                            }
                        }
                        if ptr_of(&tv).map(|p| inner.contains(&p)).unwrap_or(false) {
                            None
                        } else {
                            let at = self.index_near(tl);
                            let text = match self.rng.below(3) {
                                0 => format!("(vector-copy! {} {} {})", te, at, fe),
                                1 => format!("(vector-copy! {} {} {} {})", te, at, fe, self.index_near(fl)),
                                _ => {
                                    let s = self.index_near(fl);
                                    let e = self.index_near(fl);
                                    format!("(vector-copy! {} {} {} {} {})", te, at, fe, s, e)
                                }
                            };
                            Some((text, "vector-copy!"))
                        }
                    }
                    _ => None,
                }
            }
            28 => {
                let a = self.pick(&cands, |_| true).map(|c| c.expr.clone());
                let b = self.pick(&cands, |_| true).map(|c| c.expr.clone());
                match (a, b) {
                    (Some(a), Some(b)) => Some((format!("(equal? {} {})", a, b), "equal?")),
                    _ => None,
                }
            }
            _ => match self.pick(&cands, is_pair).map(|c| (c.expr.clone(), c.value.clone())) {
                Some((e, cv)) => {
                    let (val, vv) = self.value_arg(&cands);
                    if vv.as_ref().map(|v| Self::would_cycle(&cv, v)).unwrap_or(false) {
                        None
                    } else if self.rng.chance(1, 2) {
                        Some((format!("(set-car! {} {})", e, val), "set-car!"))
                    } else {
                        Some((format!("(set-cdr! {} {})", e, val), "set-cdr!"))
                    }
                }
                None => None,
            },
        };
        if let Some((t, name)) = text {
            // value-only operations become a later operand of an enclosing call (stack discipline
            // of the primitives)
            let t = if !t.starts_with("(define ") && self.rng.chance(1, 2) {
                if self.rng.chance(1, 2) {
                    format!("(list 'pre {} 'post)", t)
                } else {
                    format!("(vector 1 (if #t {} 'never) 'post)", t)
                }
            } else {
                t
            };
            self.ops.push(name);
            self.emit(&t);
            self.dump();
        }
    }

    /// a mutation with a value that is unique in the whole run, through some alias
    fn marker_probe(&mut self) {
        let cands = self.candidates();
        self.marker += 1;
        // the stored value is unique in the run: a symbol, a number, or a structure allocated by
        // this very operation (which is then reachable through the mutated object only)
        let m = match self.rng.below(5) {
            0 | 1 => format!("'m{}", self.marker),
            2 => format!("{}", 900_000 + self.marker),
            3 => format!("(list 'm{} {})", self.marker, self.marker),
            _ => format!("(vector 'm{} (list {}))", self.marker, self.marker),
        };
        let is_pair = |s: &Shape| matches!(s, Shape::List(n) | Shape::Improper(n) if *n > 0);
        let is_vec = |s: &Shape| matches!(s, Shape::Vector(n) if *n > 0);
        let text = match self.rng.below(3) {
            0 => self.pick(&cands, is_pair).map(|c| format!("(set-car! {} {})", c.expr, m)),
            1 => self.pick(&cands, is_pair).map(|c| format!("(set-cdr! {} {})", c.expr, m)),
            _ => self.pick(&cands, is_vec).map(|c| (c.expr.clone(), c.shape.clone())).map(|(e, sh)| {
                let n = if let Shape::Vector(n) = sh { n } else { 1 };
                format!("(vector-set! {} {} {})", e, self.rng.usize(n), m)
            }),
        };
        if let Some(t) = text {
            if t.contains("(c") || t.contains("(vector-ref") || t.contains("(list-tail") {
                self.alias_mutations += 1;
            }
            self.ops.push("marker-probe");
            self.emit(&t);
            self.dump();
        }
    }

    /// every evaluation of a constructor call yields a new object, also when all its operands
    /// are literal constants and the call site is evaluated repeatedly by the same code
    fn freshness_probe(&mut self) {
        self.marker += 1;
        let m = self.marker;
        let (ctor, mutate): (&str, &str) = match self.rng.below(8) {
            0 => ("(list 1 2 3)", "set-car!"),
            1 => ("(vector 0 'empty #t)", "vector-set!"),
            2 => ("(cons 1 2)", "set-cdr!"),
            3 => ("(list 'a \"s\" #\\c)", "set-car!"),
            4 => ("(make-vector 2 0)", "vector-set!"),
            5 => ("(list (list 1) 2)", "set-car!"),
            6 => ("(vector (vector 1) '(q))", "vector-set!"),
            _ => ("(append '(1) '(2))", "set-car!"),
        };
        let mutation = |target: &str| match mutate {
            "vector-set!" => format!("(vector-set! {} 0 'fresh{})", target, m),
            "set-cdr!" => format!("(set-cdr! {} 'fresh{})", target, m),
            _ => format!("(set-car! {} 'fresh{})", target, m),
        };
        let forms = vec![
            format!("(define (%mk{}) {})", m, ctor),
            format!("(define %fa{m} (%mk{m}))", m = m),
            format!("(define %fb{m} (%mk{m}))", m = m),
            mutation(&format!("%fa{}", m)),
            format!("(list %fa{m} %fb{m} (%mk{m}))", m = m),
            format!("(define %fl{m} (let loop ((i 0) (acc '())) (if (< i 3) (loop (+ i 1) (cons {c} acc)) acc)))", m = m, c = ctor),
            mutation(&format!("(car %fl{})", m)),
            format!("%fl{}", m),
        ];
        self.ops.push("constructor-freshness");
        for f in forms {
            self.emit(&f);
        }
        self.dump();
    }

    pub fn generate(mut self, steps: usize) -> (Vec<Sx>, usize, Vec<&'static str>) {
        self.init_pool();
        if self.rng.chance(1, 3) {
            self.freshness_probe();
        }
        for s in 0..steps {
            if s % 3 == 2 {
                self.marker_probe();
            } else {
                self.one_op();
            }
        }
        self.dump();
        (self.forms, self.alias_mutations, self.ops)
    }
}
