//! Allocation-heavy session templates (DESIGN §5 C03/C12): deterministic, terminating Scheme
//! texts with seeded sizes. They are judged only differentially (twin VM) and by the heap
//! auditor, never against the reference machine.
use crate::rng::Rng;

pub struct Template {
    pub name: &'static str,
    pub forms: Vec<String>,
}

fn f(s: &str) -> String {
    s.to_string()
}

pub fn prelude_forms() -> Vec<String> {
    vec![
        f("(define (t-build n) (let loop ((i 0) (acc '())) (if (< i n) (loop (+ i 1) (cons i acc)) acc)))"),
        f("(define (t-sum l) (let loop ((l l) (s 0)) (if (null? l) s (loop (cdr l) (+ s (car l))))))"),
        f("(define (t-repeat n thunk) (if (> n 0) (begin (thunk) (t-repeat (- n 1) thunk)) 'done))"),
    ]
}

pub fn list_builder(rng: &mut Rng, tag: usize) -> Template {
    let n = rng.range(5, 400);
    let m = rng.range(5, 300);
    let reps = rng.range(1, 6);
    Template {
        name: "lists",
        forms: vec![
            format!("(define keep{} (t-build {}))", tag, n),
            format!("(t-repeat {} (lambda () (t-build {})))", reps, m),
            format!("(t-sum keep{})", tag),
            format!("(t-sum (reverse (append keep{} (t-build {}))))", tag, m),
            format!("(length (map (lambda (x) (cons x x)) keep{}))", tag),
            format!("(list (car keep{0}) (length keep{0}) (t-sum keep{0}))", tag),
        ],
    }
}

pub fn vectors(rng: &mut Rng, tag: usize) -> Template {
    let n = rng.range(1, 120);
    Template {
        name: "vectors",
        forms: vec![
            format!("(define vec{} (make-vector {} 0))", tag, n),
            format!(
                "(let loop ((i 0)) (if (< i {n}) (begin (vector-set! vec{t} i (list i (vector i (* i i)) \"s\")) (loop (+ i 1))) 'filled))",
                n = n,
                t = tag
            ),
            format!("(t-repeat 3 (lambda () (make-vector {} (t-build 3))))", n),
            format!("(vector-ref vec{} {})", tag, rng.range(0, n - 1)),
            format!("(length (vector->list vec{}))", tag),
            format!("(equal? (vector->list vec{0}) (vector->list (list->vector (vector->list vec{0}))))", tag),
        ],
    }
}

pub fn strings_and_symbols(rng: &mut Rng, tag: usize) -> Template {
    let n = rng.range(2, 60);
    Template {
        name: "strings-symbols",
        forms: vec![
            format!(
                "(define (mk-syms{t} n) (let loop ((i 0) (acc '())) (if (< i n) (loop (+ i 1) (cons (string->symbol (string-append \"sym{t}-\" (number->string i))) acc)) acc)))",
                t = tag
            ),
            format!("(define syms{t} (mk-syms{t} {n}))", t = tag, n = n),
            format!("(t-repeat 2 (lambda () (mk-syms{t} {n})))", t = tag, n = n + 7),
            format!("(eq? (car syms{t}) (string->symbol \"sym{t}-{last}\"))", t = tag, last = n - 1),
            format!("(eq? (car (mk-syms{t} {n})) (car syms{t}))", t = tag, n = n),
            format!("(symbol->string (car (reverse syms{})))", tag),
            format!(
                "(let loop ((i 0) (s \"\")) (if (< i {}) (loop (+ i 1) (string-append s \"ab\")) (string-length s)))",
                rng.range(1, 40)
            ),
            format!("(eq? 'sym{t}-0 (car (reverse syms{t})))", t = tag),
        ],
    }
}

pub fn closures(rng: &mut Rng, tag: usize) -> Template {
    let n = rng.range(2, 40);
    Template {
        name: "closures",
        forms: vec![
            format!("(define (mk-counter{} start) (let ((n start)) (lambda () (set! n (+ n 1)) n)))", tag),
            format!(
                "(define counters{t} (map (lambda (i) (mk-counter{t} (* i 10))) (t-build {n})))",
                t = tag,
                n = n
            ),
            format!("(map (lambda (c) (c)) counters{})", tag),
            format!("(t-repeat {} (lambda () (mk-counter{} 0)))", rng.range(1, 50), tag),
            format!("(t-sum (map (lambda (c) (c) (c)) counters{}))", tag),
            format!(
                "(define (compose{t} . fs) (if (null? fs) (lambda (x) x) (lambda (x) ((car fs) ((apply compose{t} (cdr fs)) x)))))",
                t = tag
            ),
            format!(
                "((compose{t} (lambda (x) (* x 2)) (lambda (x) (+ x 1)) (car counters{t})))",
                t = tag
            ),
        ],
    }
}

pub fn continuations(rng: &mut Rng, tag: usize) -> Template {
    let n = rng.range(2, 30);
    Template {
        name: "continuations",
        forms: vec![
            format!("(define k{} #f)", tag),
            format!("(define count{} 0)", tag),
            format!(
                "(+ 100 (call/cc (lambda (c) (set! k{t} c) (t-sum (t-build {n})))))",
                t = tag,
                n = n
            ),
            format!("(t-repeat 2 (lambda () (t-build {})))", n + 3),
            format!(
                "(if (< count{t} 3) (begin (set! count{t} (+ count{t} 1)) (k{t} count{t})) 'stop)",
                t = tag
            ),
            format!("count{}", tag),
            format!(
                "(define ks{t} (map (lambda (i) (call/cc (lambda (c) c))) (t-build {})))",
                rng.range(1, 10),
                t = tag
            ),
            format!("(length ks{})", tag),
            format!(
                "(call/cc (lambda (esc) (for-each (lambda (x) (if (> x {}) (esc x))) (reverse (t-build {}))) 'none))",
                rng.range(0, 10),
                n
            ),
        ],
    }
}

pub fn eval_code(rng: &mut Rng, tag: usize) -> Template {
    let n = rng.range(1, 25);
    Template {
        name: "eval",
        forms: vec![
            format!(
                "(let loop ((i 0) (s 0)) (if (< i {}) (loop (+ i 1) (+ s (eval (list '+ 1 i)))) s))",
                n
            ),
            format!("(eval '(define ev-g{} (lambda (x) (* x 2))))", tag),
            format!("(ev-g{} 21)", tag),
            format!("(eval (list 'let (list (list 'q {})) (list 'lambda '() 'q)))", n),
            format!("((eval (list 'lambda '(a b) (list 'cons 'a 'b))) 1 (t-build {}))", n.min(5)),
            format!("(map (lambda (e) (eval e)) (list ''a '(+ 1 2) '(ev-g{} 3) \"str\" 5))", tag),
        ],
    }
}

pub fn variadic(rng: &mut Rng, tag: usize) -> Template {
    let n = rng.range(0, 80);
    Template {
        name: "variadic",
        forms: vec![
            format!("(define (va{} . xs) xs)", tag),
            format!("(define (vb{} a b . xs) (list a b xs))", tag),
            format!("(va{} 1 2 3 4 5)", tag),
            format!("(va{})", tag),
            format!("(vb{} 1 2)", tag),
            format!("(vb{} 1 2 3)", tag),
            format!("(length (apply va{} (t-build {})))", tag, n),
            format!("(apply vb{} 1 2 (t-build {}))", tag, n.min(6)),
            format!("(apply + (apply va{} (t-build {})))", tag, n),
            format!("(apply max 0 (map (lambda (x) (* x x)) (t-build {})))", n.min(30)),
        ],
    }
}

pub fn deep_recursion(rng: &mut Rng, tag: usize) -> Template {
    let n = rng.range(50, 600);
    Template {
        name: "deep-recursion",
        forms: vec![
            format!("(define (rsum{0} n) (if (= n 0) 0 (+ n (rsum{0} (- n 1)))))", tag),
            format!("(rsum{} {})", tag, n),
            format!(
                "(define (rlist{0} n) (if (= n 0) '() (cons (list n) (rlist{0} (- n 1)))))",
                tag
            ),
            format!("(length (rlist{} {}))", tag, n),
        ],
    }
}

pub fn heap_growth(rng: &mut Rng, tag: usize) -> Template {
    let n = rng.range(2500, 6000);
    Template {
        name: "heap-growth",
        forms: vec![
            format!("(define big{} (t-build {}))", tag, n),
            format!("(t-sum big{})", tag),
            format!("(define big{} (t-build 10))", tag),
            format!("(t-sum (t-build {}))", n / 2),
        ],
    }
}

/// a procedure with hundreds of bytecode cells that is later redefined
pub fn long_procedure(rng: &mut Rng, tag: usize) -> Template {
    let clauses = rng.range(20, 90);
    let mut body = String::new();
    for i in 0..clauses {
        body.push_str(&format!("((= x {}) (list {} 'c{}))", i, i * 3, i));
    }
    let pick = rng.range(0, clauses);
    Template {
        name: "long-procedure",
        forms: vec![
            format!("(define (longp{} x) (cond {} (else 'none)))", tag, body),
            format!("(longp{} {})", tag, pick),
            format!("(define (longp{} x) (list x))", tag),
            format!("(longp{} {})", tag, pick),
            format!("(t-sum (t-build {}))", rng.range(10, 300)),
        ],
    }
}

pub fn alists_qq(rng: &mut Rng, tag: usize) -> Template {
    let n = rng.range(1, 40);
    Template {
        name: "alists-quasiquote",
        forms: vec![
            format!("(define al{} (map (lambda (i) (cons i (list i 'v (* i i)))) (t-build {})))", tag, n),
            format!("(assv {} al{})", rng.range(0, n), tag),
            format!("(define (tmpl{} a b) `(head ,a (mid ,b ,(+ a b)) #(1 2 inner-sym{}) tail . dotted-tail{}))", tag, tag, tag),
            format!("(map (lambda (p) (tmpl{} (car p) (length (cdr p)))) al{})", tag, tag),
            format!("(member (list 1 'v 1) (map cdr al{}))", tag),
        ],
    }
}

pub fn promises(rng: &mut Rng, tag: usize) -> Template {
    let n = rng.range(1, 30);
    Template {
        name: "promises",
        forms: vec![
            format!("(define forced{} 0)", tag),
            format!(
                "(define ps{t} (map (lambda (i) (delay (begin (set! forced{t} (+ forced{t} 1)) (* i i)))) (t-build {n})))",
                t = tag,
                n = n
            ),
            format!("(t-sum (map force ps{}))", tag),
            format!("(t-sum (map force ps{}))", tag),
            format!("forced{}", tag),
        ],
    }
}

/// objects that hold only immediates when they are created and receive the only reference to a
/// heap object later (vector-set!, set-car!, set! of a captured variable, vector-fill!)
pub fn late_store(rng: &mut Rng, tag: usize) -> Template {
    let n = rng.range(1, 40);
    Template {
        name: "late-store",
        forms: vec![
            format!(
                "(define (late{t} n) (let ((v (make-vector 4 0)) (w (vector 1 2 3)) (p (cons 1 2)) (c 0)) (vector-set! v 1 (list n n)) (vector-fill! w (vector n)) (set-car! p (t-build 3)) (set-cdr! p (number->string n)) (set! c (list 'c n)) (t-build {g}) (list (vector-ref v 1) w p c)))",
                t = tag,
                g = rng.range(5, 200)
            ),
            format!("(late{} {})", tag, n),
            format!("(define lv{} (make-vector 3 #f))", tag),
            format!("(vector-set! lv{} 0 (t-build {}))", tag, n),
            format!("(t-repeat 2 (lambda () (t-build {})))", rng.range(5, 300)),
            format!("(list lv{t} (late{t} 2))", t = tag),
        ],
    }
}

pub fn mixed_session(rng: &mut Rng) -> (Vec<String>, Vec<&'static str>) {
    let mut forms = prelude_forms();
    let mut names = vec![];
    let n = 1 + rng.usize(4);
    for tag in 0..n {
        let t = match rng.below(15) {
            0 => list_builder(rng, tag),
            1 => vectors(rng, tag),
            2 => strings_and_symbols(rng, tag),
            3 => closures(rng, tag),
            4 => continuations(rng, tag),
            5 => eval_code(rng, tag),
            6 => variadic(rng, tag),
            7 => deep_recursion(rng, tag),
            8 => {
                if rng.chance(1, 3) {
                    heap_growth(rng, tag)
                } else {
                    list_builder(rng, tag)
                }
            }
            9 | 10 => long_procedure(rng, tag),
            11 => alists_qq(rng, tag),
            13 | 14 => late_store(rng, tag),
            _ => promises(rng, tag),
        };
        names.push(t.name);
        forms.extend(t.forms);
    }
    (forms, names)
}
