//! G01 — typed generator of sessions (DESIGN §5 C01, Appendix A).
//!
//! Produces only programs whose outcome R7RS fixes (see the rules in the comments); a small,
//! controlled fraction of forms fails on purpose. The same sessions are the workload of the
//! C03/C07/C13 schedule and fault searches.
use crate::rng::Rng;
use crate::sx::{app, call, int, list, quote, sym, Sx};

#[derive(Clone, Debug, PartialEq, Eq)]
pub enum Ty {
    Int,
    /// small non-negative integer (recursion counters)
    Small,
    Bool,
    Sym,
    Char,
    Str,
    /// proper list of integers (possibly a constant)
    ListInt,
    /// vector of integers with a known length (possibly a constant)
    VecInt,
    /// procedure Int^n -> Int
    Fn(usize),
    /// any datum (only consumed by equal?, list, output and as a result)
    Any,
}

#[derive(Clone, Debug)]
pub enum VKind {
    Data(Ty),
    /// freshly built list of known length >= 1 (never reassigned; set-car! allowed)
    MutList(usize),
    /// freshly built vector of known length >= 1 (never reassigned; vector-set! allowed)
    MutVec(usize),
    /// promise of an Int
    Promise,
    Proc(Sig),
}

#[derive(Clone, Debug)]
pub struct Sig {
    pub params: Vec<Ty>,
    /// rest parameter: receives a list of Ints
    pub rest: bool,
    pub ret: Ty,
}

#[derive(Clone, Debug)]
pub struct Var {
    pub name: String,
    pub kind: VKind,
    /// may be the target of set!
    pub assignable: bool,
    /// definition level (see module comment on termination)
    pub level: usize,
}

pub struct Options {
    pub max_forms: usize,
    pub min_forms: usize,
    pub max_depth: u32,
    /// per-mille of top-level forms that fail on purpose
    pub fail_permille: u64,
    pub allow_output: bool,
    pub allow_eval: bool,
    /// keyword symbols as quasiquote data (exposes macro expansion inside templates)
    pub keyword_data_in_templates: bool,
    /// quasiquote unquotes referring to closure variables (exposes free-variable scan defect)
    pub qq_in_closures: bool,
    pub qq_vectors: bool,
}

impl Default for Options {
    fn default() -> Self {
        Options {
            max_forms: 14,
            min_forms: 3,
            max_depth: 4,
            fail_permille: 40,
            allow_output: true,
            allow_eval: true,
            keyword_data_in_templates: true,
            qq_in_closures: true,
            qq_vectors: true,
        }
    }
}

pub struct G01<'a> {
    pub rng: &'a mut Rng,
    pub opt: &'a Options,
    pub globals: Vec<Var>,
    locals: Vec<Var>,
    counter: usize,
    /// level of the code being generated: procedures with level < cur_level may be called
    cur_level: usize,
    uniq: i64,
    /// statistics for the non-triviality rule
    pub derived_nested: bool,
    pub global_interaction: bool,
    in_closure_depth: u32,
    /// names that must not be referenced while an internal definition of that name is initialised
    hidden: Vec<String>,
    /// procedures that are called by already generated code but defined by a later form
    /// (forward references); their level lies just below the level of their first caller
    pub forward: Vec<Var>,
    pub forward_refs: usize,
    /// statistics: bindings that shadow an enclosing binding of the same name
    pub shadowings: usize,
}

const SYMS: [&str; 8] = ["a", "b", "c", "foo", "bar", "x->y", "k1", "zed"];
const KEYWORD_SYMS: [&str; 6] = ["let", "and", "or", "cond", "begin", "when"];
const CHARS: [char; 6] = ['a', 'Z', '0', ' ', 'λ', '('];
const STRS: [&str; 5] = ["", "abc", "hello world", "a\"b", "λx"];

impl<'a> G01<'a> {
    pub fn new(rng: &'a mut Rng, opt: &'a Options) -> G01<'a> {
        G01 {
            rng,
            opt,
            globals: vec![],
            locals: vec![],
            counter: 0,
            cur_level: 0,
            uniq: 0,
            derived_nested: false,
            global_interaction: false,
            in_closure_depth: 0,
            hidden: vec![],
            forward: vec![],
            forward_refs: 0,
            shadowings: 0,
        }
    }

    /// a name for a new binding of a simple data type: mostly fresh, sometimes the name of a
    /// visible variable of the same type (shadowing)
    fn binding_name(&mut self, kind: &VKind, prefix: &str, taken: &[String]) -> String {
        if let VKind::Data(t) = kind {
            if matches!(t, Ty::Int | Ty::Bool | Ty::Sym) && self.rng.chance(1, 4) {
                let t2 = t.clone();
                let cands: Vec<String> = self
                    .visible()
                    .filter(|v| matches!(&v.kind, VKind::Data(x) if *x == t2))
                    .map(|v| v.name.clone())
                    .filter(|n| !taken.contains(n) && !n.starts_with('i') && !n.starts_with("acc"))
                    .collect();
                if !cands.is_empty() {
                    self.shadowings += 1;
                    return cands[self.rng.usize(cands.len())].clone();
                }
            }
        }
        self.fresh(prefix)
    }

    fn fresh(&mut self, prefix: &str) -> String {
        self.counter += 1;
        format!("{}{}", prefix, self.counter)
    }

    fn small_int(&mut self) -> i64 {
        match self.rng.below(10) {
            0 => 0,
            1 => 1,
            2 => -1,
            3 => self.rng.range(-1000, 1000),
            4 => self.rng.range(-(1 << 20), 1 << 20),
            _ => self.rng.range(-9, 20),
        }
    }

    fn visible(&self) -> impl Iterator<Item = &Var> {
        // innermost first; a global shadowed by a local of the same name never occurs
        // because names are unique
        self.locals.iter().rev().chain(self.globals.iter().rev()).chain(self.forward.iter())
    }

    fn vars_of<F: Fn(&Var) -> bool>(&self, pred: F) -> Vec<Var> {
        let lvl = self.cur_level;
        self.visible()
            .filter(|v| match v.kind {
                // procedures (and anything that can run code) only below the current level
                VKind::Proc(_) | VKind::Promise => v.level < lvl,
                VKind::Data(Ty::Fn(_)) => v.level < lvl,
                _ => true,
            })
            .filter(|v| !self.hidden.contains(&v.name))
            .filter(|v| pred(v))
            .cloned()
            .collect()
    }

    fn note_global(&mut self, v: &Var) {
        if self.globals.iter().any(|g| g.name == v.name) {
            self.global_interaction = true;
        }
    }

    // ------------------------------------------------------------------
    // expressions
    // ------------------------------------------------------------------

    pub fn expr(&mut self, ty: &Ty, depth: u32) -> Sx {
        if depth == 0 {
            return self.leaf(ty);
        }
        // shared structural productions (type preserving)
        let roll = self.rng.below(100);
        if roll < 34 {
            return self.structural(ty, depth);
        }
        match ty {
            Ty::Int => self.int_expr(depth),
            Ty::Small => self.leaf(ty),
            Ty::Bool => self.bool_expr(depth),
            Ty::Sym => self.sym_expr(depth),
            Ty::Char | Ty::Str => self.leaf(ty),
            Ty::ListInt => self.list_expr(depth),
            Ty::VecInt => self.vec_expr(depth),
            Ty::Fn(n) => self.fn_expr(*n, depth),
            Ty::Any => self.any_expr(depth),
        }
    }

    fn leaf(&mut self, ty: &Ty) -> Sx {
        // a variable of that type, else a constant
        let t = ty.clone();
        let cands = self.vars_of(|v| match (&v.kind, &t) {
            (VKind::Data(a), b) => a == b || (*b == Ty::Int && *a == Ty::Small),
            _ => false,
        });
        if !cands.is_empty() && self.rng.chance(1, 2) {
            let v = self.rng.pick(&cands).clone();
            self.note_global(&v);
            return sym(&v.name);
        }
        match ty {
            Ty::Int => int(self.small_int()),
            Ty::Small => {
                // mostly tiny; one in ten is a recursion depth / iteration count at which a
                // non-tail recursion crosses a doubling of the stack (256, 512, 1024, 2048 slots)
                if self.rng.chance(1, 10) {
                    let (lo, hi) = *self.rng.pick(&[(25i64, 45i64), (25, 45), (55, 75), (110, 140), (240, 270)]);
                    int(self.rng.range(lo, hi))
                } else {
                    int(self.rng.range(0, 6))
                }
            }
            Ty::Bool => Sx::Bool(self.rng.chance(1, 2)),
            Ty::Sym => quote(sym(self.rng.pick_str(&SYMS))),
            Ty::Char => Sx::Char(*self.rng.pick(&CHARS)),
            Ty::Str => Sx::Str(self.rng.pick(&STRS).to_string()),
            Ty::ListInt => {
                let n = self.rng.usize(4);
                let items = (0..n).map(|_| int(self.small_int())).collect();
                quote(list(items))
            }
            Ty::VecInt => {
                let n = 1 + self.rng.usize(3);
                Sx::Vector((0..n).map(|_| int(self.small_int())).collect())
            }
            Ty::Fn(n) => self.lambda_fn(*n, 0),
            Ty::Any => {
                let t = self.random_data_ty();
                self.leaf(&t)
            }
        }
    }

    fn random_data_ty(&mut self) -> Ty {
        match self.rng.below(8) {
            0 => Ty::Bool,
            1 => Ty::Sym,
            2 => Ty::Char,
            3 => Ty::Str,
            4 => Ty::ListInt,
            5 => Ty::VecInt,
            _ => Ty::Int,
        }
    }

    fn test_expr(&mut self, depth: u32) -> Sx {
        // any value may be a test; mostly booleans so both branches are taken
        if self.rng.chance(1, 8) {
            let t = self.random_data_ty();
            self.expr(&t, depth.saturating_sub(1))
        } else {
            self.expr(&Ty::Bool, depth.saturating_sub(1))
        }
    }

    /// type-preserving special and derived forms
    fn structural(&mut self, ty: &Ty, depth: u32) -> Sx {
        let d = depth - 1;
        if d < depth.saturating_sub(1) + 1 && depth >= 2 {
            self.derived_nested = true;
        }
        match self.rng.below(17) {
            16 => {
                // the same effectful expression spelled twice in one conditional form: each
                // occurrence is evaluated when (and as often as) the form's rules say
                let counters = self.vars_of(|v| v.assignable && matches!(v.kind, VKind::Data(Ty::Int)));
                let eff = if !counters.is_empty() && self.rng.chance(2, 3) {
                    let c = self.rng.pick(&counters).clone();
                    self.note_global(&c);
                    list(vec![sym("set!"), sym(&c.name), call("+", vec![sym(&c.name), int(1)])])
                } else {
                    self.effect(d)
                };
                let v = self.expr(ty, d);
                let e = list(vec![sym("begin"), eff, v]);
                let other = self.expr(ty, d);
                match self.rng.below(7) {
                    0 | 1 => sx_if(e.clone(), e, other),
                    2 => call("and", vec![e.clone(), e]),
                    3 => call("and", vec![self.test_true(d), e.clone(), e]),
                    4 => call("or", vec![Sx::Bool(false), call("and", vec![e.clone(), e])]),
                    5 => list(vec![sym("cond"), list(vec![e.clone(), e]), list(vec![sym("else"), other])]),
                    _ => sx_if(call("not", vec![e.clone()]), other, e),
                }
            }
            0 | 1 => {
                // if
                let c = self.test_expr(depth);
                let a = self.expr(ty, d);
                let b = self.expr(ty, d);
                sx_if(c, a, b)
            }
            2 => {
                // cond with else, sometimes =>
                let n = 1 + self.rng.usize(3);
                let mut clauses = vec![];
                for _ in 0..n {
                    if *ty == Ty::ListInt && self.rng.chance(1, 4) {
                        // (cond ((memv k lst) => cdr) ...) style: test value is a list
                        let l = self.expr(&Ty::ListInt, d);
                        clauses.push(list(vec![
                            call("cdr-or-nil", vec![l]).replace_call_cdr_or_nil(),
                            sym("=>"),
                            self.lambda_any_to(ty, d),
                        ]));
                    } else {
                        let c = self.test_expr(depth);
                        let mut clause = vec![c];
                        if self.rng.chance(1, 4) {
                            clause.push(self.effect(d));
                        }
                        clause.push(self.expr(ty, d));
                        clauses.push(list(clause));
                    }
                }
                let e = self.expr(ty, d);
                clauses.push(list(vec![sym("else"), e]));
                let mut v = vec![sym("cond")];
                v.extend(clauses);
                list(v)
            }
            3 => {
                // case on an integer / symbol / char key
                let (key, datums): (Sx, Vec<Sx>) = match self.rng.below(3) {
                    0 => (
                        self.expr(&Ty::Int, d),
                        vec![int(0), int(1), int(2), int(-1), int(7)],
                    ),
                    1 => (
                        self.expr(&Ty::Sym, d),
                        SYMS.iter().take(4).map(|s| sym(s)).collect(),
                    ),
                    _ => (
                        self.expr(&Ty::Char, d),
                        CHARS.iter().take(3).map(|c| Sx::Char(*c)).collect(),
                    ),
                };
                let mut v = vec![sym("case"), key];
                let n = 1 + self.rng.usize(2);
                let mut pool = datums;
                self.rng.shuffle(&mut pool);
                for i in 0..n {
                    let take = 1 + self.rng.usize(2);
                    let ds: Vec<Sx> = pool.iter().skip(i * 2).take(take).cloned().collect();
                    if ds.is_empty() {
                        break;
                    }
                    let e = self.expr(ty, d);
                    v.push(list(vec![list(ds), e]));
                }
                let e = self.expr(ty, d);
                v.push(list(vec![sym("else"), e]));
                list(v)
            }
            4 | 5 => self.let_form(ty, depth, "let"),
            6 => self.let_form(ty, depth, "let*"),
            7 => self.letrec_form(ty, depth),
            8 | 9 => {
                // begin with effects
                let mut v = vec![sym("begin")];
                let n = self.rng.usize(3);
                for _ in 0..n {
                    v.push(self.effect(d));
                }
                v.push(self.expr(ty, d));
                list(v)
            }
            10 => {
                // immediately applied lambda literal
                self.applied_lambda(ty, depth)
            }
            11 => {
                // named let accumulating loop for Int / ListInt
                match ty {
                    Ty::Int | Ty::ListInt => self.named_let(ty, depth),
                    _ => {
                        let c = self.test_expr(depth);
                        let a = self.expr(ty, d);
                        let b = self.expr(ty, d);
                        sx_if(c, a, b)
                    }
                }
            }
            12 => {
                // when/unless whose test is known so the value is specified
                let kw = if self.rng.chance(1, 2) { "when" } else { "unless" };
                let test = Sx::Bool(kw == "when");
                let test = if self.rng.chance(1, 2) {
                    // a computed but determined test
                    if kw == "when" {
                        call("=", vec![int(1), int(1)])
                    } else {
                        call("=", vec![int(1), int(2)])
                    }
                } else {
                    test
                };
                let mut v = vec![sym(kw), test];
                if self.rng.chance(1, 3) {
                    v.push(self.effect(d));
                }
                v.push(self.expr(ty, d));
                list(v)
            }
            13 => {
                // (or #f e) / (and #t e): value of the last expression
                if self.rng.chance(1, 2) {
                    let e = self.expr(ty, d);
                    call("or", vec![Sx::Bool(false), e])
                } else {
                    let t = self.test_true(d);
                    let e = self.expr(ty, d);
                    call("and", vec![t, e])
                }
            }
            14 => {
                // call of a user procedure returning ty
                self.user_call(ty, depth).unwrap_or_else(|| self.leaf(ty))
            }
            _ => {
                if self.opt.allow_eval && self.locals.is_empty() && self.rng.chance(1, 2) {
                    // eval of a closed expression (only globals visible)
                    let e = self.expr(ty, d.min(2));
                    call("eval", vec![quote(e)])
                } else {
                    self.user_call(ty, depth).unwrap_or_else(|| self.leaf(ty))
                }
            }
        }
    }

    /// an expression that is certainly true (not #f)
    fn test_true(&mut self, d: u32) -> Sx {
        match self.rng.below(3) {
            0 => Sx::Bool(true),
            1 => self.expr(&Ty::Int, d),
            _ => call("=", vec![int(2), int(2)]),
        }
    }

    fn lambda_any_to(&mut self, ty: &Ty, d: u32) -> Sx {
        // (lambda (p) e) ignoring or using p as a list
        let p = self.fresh("t");
        self.locals.push(Var {
            name: p.clone(),
            kind: VKind::Data(Ty::ListInt),
            assignable: false,
            level: 0,
        });
        self.in_closure_depth += 1;
        let body = self.expr(ty, d);
        self.in_closure_depth -= 1;
        self.locals.pop();
        list(vec![sym("lambda"), list(vec![sym(&p)]), body])
    }

    fn binding_init(&mut self, depth: u32) -> (VKind, Sx) {
        let d = depth.saturating_sub(1);
        match self.rng.below(12) {
            0 => {
                let n = 1 + self.rng.usize(3);
                let items = (0..n).map(|_| self.expr(&Ty::Int, d)).collect();
                (VKind::MutList(n), call("list", items))
            }
            1 => {
                let n = 1 + self.rng.usize(3);
                if self.rng.chance(1, 2) {
                    let items = (0..n).map(|_| self.expr(&Ty::Int, d)).collect();
                    (VKind::MutVec(n), call("vector", items))
                } else {
                    let e = self.expr(&Ty::Int, d);
                    (VKind::MutVec(n), call("make-vector", vec![int(n as i64), e]))
                }
            }
            2 => {
                let e = self.expr(&Ty::Int, d);
                let e = if self.opt.allow_output && self.rng.chance(1, 3) {
                    // an effect inside the promise shows how often it is forced
                    let tag = self.uniq_tag();
                    let disp = self.display_of(int(tag));
                    list(vec![sym("begin"), disp, e])
                } else {
                    e
                };
                (VKind::Promise, call("delay", vec![e]))
            }
            3 => {
                let n = 1 + self.rng.usize(2);
                if self.rng.chance(1, 2) {
                    (VKind::Data(Ty::Fn(n)), self.fn_expr(n, d))
                } else {
                    (VKind::Data(Ty::Fn(n)), self.lambda_fn(n, d))
                }
            }
            _ => {
                let t = match self.rng.below(10) {
                    0 => Ty::Bool,
                    1 => Ty::Sym,
                    2 => Ty::ListInt,
                    3 => Ty::VecInt,
                    4 => Ty::Str,
                    5 => Ty::Char,
                    _ => Ty::Int,
                };
                let e = self.expr(&t, d);
                (VKind::Data(t), e)
            }
        }
    }

    fn uniq_tag(&mut self) -> i64 {
        self.uniq += 1;
        900_000 + self.uniq
    }

    fn let_form(&mut self, ty: &Ty, depth: u32, kw: &str) -> Sx {
        let n = 1 + self.rng.usize(3);
        let mut bindings = vec![];
        let mut newvars = vec![];
        let base = self.locals.len();
        let mut taken: Vec<String> = vec![];
        for _ in 0..n {
            let (kind, init) = self.binding_init(depth);
            let name = self.binding_name(&kind, "v", &taken);
            if kw != "let*" {
                taken.push(name.clone());
            }
            bindings.push(list(vec![sym(&name), init]));
            let assignable = matches!(kind, VKind::Data(Ty::Int) | VKind::Data(Ty::Bool) | VKind::Data(Ty::Sym));
            let var = Var {
                name,
                kind,
                assignable,
                level: self.cur_level.saturating_sub(1),
            };
            if kw == "let*" {
                self.locals.push(var);
            } else {
                newvars.push(var);
            }
        }
        self.locals.extend(newvars);
        let body = self.body(ty, depth - 1);
        self.locals.truncate(base);
        let mut v = vec![sym(kw), list(bindings)];
        v.extend(body);
        list(v)
    }

    fn letrec_form(&mut self, ty: &Ty, depth: u32) -> Sx {
        // letrec of one or two mutually recursive counters: inits are lambdas only
        let f = self.fresh("r");
        let g = self.fresh("r");
        let base = self.locals.len();
        let lvl = self.cur_level;
        let n = sym("n");
        let fbody = sx_if(
            call("<=", vec![n.clone(), int(0)]),
            int(self.small_int()),
            call("+", vec![int(1), call(&g, vec![call("-", vec![n.clone(), int(1)])])]),
        );
        let gbody = sx_if(
            call("<=", vec![n.clone(), int(0)]),
            int(self.small_int()),
            call("+", vec![int(2), call(&f, vec![call("-", vec![n.clone(), int(1)])])]),
        );
        let bindings = list(vec![
            list(vec![sym(&f), list(vec![sym("lambda"), list(vec![n.clone()]), fbody])]),
            list(vec![sym(&g), list(vec![sym("lambda"), list(vec![n.clone()]), gbody])]),
        ]);
        // inside the body the two may be called with small arguments
        self.locals.push(Var {
            name: f.clone(),
            kind: VKind::Proc(Sig {
                params: vec![Ty::Small],
                rest: false,
                ret: Ty::Int,
            }),
            assignable: false,
            level: lvl.saturating_sub(1),
        });
        let body = self.body(ty, depth - 1);
        self.locals.truncate(base);
        let mut v = vec![sym("letrec"), bindings];
        v.extend(body);
        list(v)
    }

    fn named_let(&mut self, ty: &Ty, depth: u32) -> Sx {
        let d = depth.saturating_sub(1);
        // sometimes the loop tag takes the name of a visible variable that an init expression
        // reads: the tag is bound in the body only, the init sees the outer variable
        let shadow: Option<String> = if self.rng.chance(1, 3) {
            let cands: Vec<String> = self
                .vars_of(|v| matches!(&v.kind, VKind::Data(Ty::Int)))
                .into_iter()
                .map(|v| v.name)
                .filter(|n| !n.starts_with('i') && !n.starts_with("acc"))
                .collect();
            if cands.is_empty() {
                None
            } else {
                self.shadowings += 1;
                Some(cands[self.rng.usize(cands.len())].clone())
            }
        } else {
            None
        };
        let lp = match &shadow {
            Some(n) => n.clone(),
            None => self.fresh("loop"),
        };
        let i = self.fresh("i");
        let acc = self.fresh("acc");
        let n = self.rng.range(0, 6);
        let base = self.locals.len();
        self.locals.push(Var {
            name: i.clone(),
            kind: VKind::Data(Ty::Int),
            assignable: false,
            level: 0,
        });
        self.locals.push(Var {
            name: acc.clone(),
            kind: VKind::Data(ty.clone()),
            assignable: false,
            level: 0,
        });
        if shadow.is_some() {
            // inside the body the name denotes the loop procedure
            self.hidden.push(lp.clone());
        }
        let step = match ty {
            Ty::Int => {
                let e = self.expr(&Ty::Int, d.min(2));
                call("+", vec![sym(&acc), e])
            }
            _ => {
                let e = self.expr(&Ty::Int, d.min(2));
                call("cons", vec![e, sym(&acc)])
            }
        };
        if shadow.is_some() {
            self.hidden.pop();
        }
        self.locals.truncate(base);
        let init = match (ty, &shadow) {
            (Ty::Int, Some(n)) => call("+", vec![sym(n), int(self.small_int())]),
            (_, Some(n)) => call("list", vec![sym(n)]),
            (Ty::Int, None) => int(self.small_int()),
            _ => quote(list(vec![])),
        };
        list(vec![
            sym("let"),
            sym(&lp),
            list(vec![list(vec![sym(&i), int(0)]), list(vec![sym(&acc), init])]),
            sx_if(
                call("<", vec![sym(&i), int(n)]),
                call(&lp, vec![call("+", vec![sym(&i), int(1)]), step]),
                sym(&acc),
            ),
        ])
    }

    /// body: optional internal definitions, effects, then the value expression
    fn body(&mut self, ty: &Ty, depth: u32) -> Vec<Sx> {
        let mut out = vec![];
        let base = self.locals.len();
        // internal definitions (letrec* semantics; inits refer only to earlier ones)
        if self.rng.chance(1, 4) {
            let n = 1 + self.rng.usize(2);
            for k in 0..n {
                if self.rng.chance(1, 2) {
                    // the first internal definition of a body may reuse (shadow) the name of an
                    // enclosing variable; that name is hidden while its own init is generated
                    // (letrec* scoping: the init would see the new, uninitialised variable)
                    let (kind, name, init) = if k == 0 && self.rng.chance(1, 3) {
                        let probe_kind = VKind::Data(if self.rng.chance(3, 4) { Ty::Int } else { Ty::Sym });
                        let name = self.binding_name(&probe_kind, "d", &[]);
                        self.hidden.push(name.clone());
                        let ty = match &probe_kind {
                            VKind::Data(t) => t.clone(),
                            _ => Ty::Int,
                        };
                        let init = self.expr(&ty, depth.saturating_sub(1));
                        self.hidden.pop();
                        (probe_kind, name, init)
                    } else {
                        let (kind, init) = self.binding_init(depth);
                        let name = self.fresh("d");
                        (kind, name, init)
                    };
                    out.push(list(vec![sym("define"), sym(&name), init]));
                    let assignable = matches!(kind, VKind::Data(Ty::Int));
                    self.locals.push(Var {
                        name,
                        kind,
                        assignable,
                        level: self.cur_level.saturating_sub(1),
                    });
                } else {
                    // internal procedure definition
                    let name = self.fresh("h");
                    let nparams = self.rng.usize(3);
                    let (params, pvars) = self.params(nparams, false);
                    let lb = self.locals.len();
                    self.locals.extend(pvars);
                    self.in_closure_depth += 1;
                    let b = self.expr(&Ty::Int, depth.saturating_sub(1));
                    self.in_closure_depth -= 1;
                    self.locals.truncate(lb);
                    let mut head = vec![sym(&name)];
                    head.extend(params);
                    out.push(list(vec![sym("define"), list(head), b]));
                    self.locals.push(Var {
                        name,
                        kind: VKind::Proc(Sig {
                            params: vec![Ty::Int; nparams],
                            rest: false,
                            ret: Ty::Int,
                        }),
                        assignable: false,
                        level: self.cur_level.saturating_sub(1),
                    });
                }
            }
        }
        let n_eff = if self.rng.chance(1, 3) { 1 + self.rng.usize(2) } else { 0 };
        for _ in 0..n_eff {
            out.push(self.effect(depth.saturating_sub(1)));
        }
        out.push(self.expr(ty, depth));
        self.locals.truncate(base);
        out
    }

    fn params(&mut self, n: usize, rest: bool) -> (Vec<Sx>, Vec<Var>) {
        let mut ps = vec![];
        let mut vars = vec![];
        for _ in 0..n {
            let name = self.fresh("p");
            ps.push(sym(&name));
            vars.push(Var {
                name,
                kind: VKind::Data(Ty::Int),
                assignable: self.rng.chance(1, 4),
                level: 0,
            });
        }
        if rest {
            let name = self.fresh("rest");
            vars.push(Var {
                name,
                kind: VKind::Data(Ty::ListInt),
                assignable: false,
                level: 0,
            });
        }
        (ps, vars)
    }

    fn applied_lambda(&mut self, ty: &Ty, depth: u32) -> Sx {
        let d = depth - 1;
        let n = self.rng.usize(3);
        let rest = self.rng.chance(1, 4);
        let (ps, vars) = self.params(n, rest);
        let base = self.locals.len();
        let rest_name = if rest { Some(vars.last().unwrap().name.clone()) } else { None };
        self.locals.extend(vars);
        let body = self.body(ty, d);
        self.locals.truncate(base);
        let formals = match rest_name {
            Some(r) if ps.is_empty() => sym(&r),
            Some(r) => Sx::Dotted(ps.clone(), Box::new(sym(&r))),
            None => list(ps.clone()),
        };
        let mut lam = vec![sym("lambda"), formals];
        lam.extend(body);
        let extra = if rest { self.rng.usize(3) } else { 0 };
        let args = (0..n + extra).map(|_| self.expr(&Ty::Int, d)).collect();
        app(list(lam), args)
    }

    /// (lambda (p1..pn) int-body), closing over whatever is in scope
    fn lambda_fn(&mut self, n: usize, depth: u32) -> Sx {
        let (ps, vars) = self.params(n, false);
        let base = self.locals.len();
        self.locals.extend(vars);
        self.in_closure_depth += 1;
        let body = self.expr(&Ty::Int, depth);
        self.in_closure_depth -= 1;
        self.locals.truncate(base);
        list(vec![sym("lambda"), list(ps), body])
    }

    fn fn_expr(&mut self, n: usize, depth: u32) -> Sx {
        let cands = self.vars_of(|v| match &v.kind {
            VKind::Data(Ty::Fn(m)) => *m == n,
            VKind::Proc(s) => !s.rest && s.ret == Ty::Int && s.params.len() == n && s.params.iter().all(|p| *p == Ty::Int),
            _ => false,
        });
        if !cands.is_empty() && self.rng.chance(1, 2) {
            let v = self.rng.pick(&cands).clone();
            self.note_global(&v);
            return sym(&v.name);
        }
        if n == 2 && self.rng.chance(1, 4) {
            return sym(*self.rng.pick(&["+", "*", "-"]));
        }
        // a procedure returning Fn(n) (closure factory)?
        let makers = self.vars_of(|v| matches!(&v.kind, VKind::Proc(s) if s.ret == Ty::Fn(n) && !s.rest));
        if !makers.is_empty() && self.rng.chance(1, 2) {
            let v = self.rng.pick(&makers).clone();
            self.note_global(&v);
            if let VKind::Proc(sig) = &v.kind {
                let args = sig.params.clone().iter().map(|t| self.expr(t, depth.saturating_sub(1))).collect();
                return call(&v.name, args);
            }
        }
        self.lambda_fn(n, depth.saturating_sub(1))
    }

    fn user_call(&mut self, ty: &Ty, depth: u32) -> Option<Sx> {
        let d = depth.saturating_sub(1);
        let t = ty.clone();
        // inside a procedure body: occasionally call a procedure that a later form will define
        if t == Ty::Int && self.cur_level != usize::MAX && self.cur_level >= 2 && self.forward.len() < 2 && self.rng.chance(1, 12) {
            let name = self.fresh("fw");
            let nparams = self.rng.usize(3);
            self.forward.push(Var {
                name,
                kind: VKind::Proc(Sig {
                    params: vec![Ty::Int; nparams],
                    rest: false,
                    ret: Ty::Int,
                }),
                assignable: false,
                level: self.cur_level - 1,
            });
            self.forward_refs += 1;
        }
        let cands = self.vars_of(|v| matches!(&v.kind, VKind::Proc(s) if s.ret == t || (t == Ty::Int && s.ret == Ty::Small)));
        if cands.is_empty() {
            return None;
        }
        let v = self.rng.pick(&cands).clone();
        self.note_global(&v);
        let sig = match &v.kind {
            VKind::Proc(s) => s.clone(),
            _ => unreachable!(),
        };
        let mut args: Vec<Sx> = sig.params.iter().map(|t| self.expr(t, d)).collect();
        let extra = if sig.rest { self.rng.usize(3) } else { 0 };
        for _ in 0..extra {
            args.push(self.expr(&Ty::Int, d));
        }
        if self.rng.chance(1, 5) {
            // through apply: spread the last k arguments into a list
            let k = self.rng.usize(args.len() + 1);
            let tail: Vec<Sx> = args.split_off(args.len() - k);
            let mut a = vec![sym(&v.name)];
            a.extend(args);
            a.push(call("list", tail));
            return Some(call("apply", a));
        }
        Some(call(&v.name, args))
    }

    fn int_expr(&mut self, depth: u32) -> Sx {
        let d = depth - 1;
        match self.rng.below(16) {
            0 | 1 | 2 => {
                let op = *self.rng.pick(&["+", "-", "+", "-", "*"]);
                if op == "*" {
                    // keep products small: one factor is a small literal
                    let a = self.expr(&Ty::Int, d);
                    call("*", vec![a, int(self.rng.range(-3, 3))])
                } else {
                    let n = 1 + self.rng.usize(3);
                    let args = (0..n).map(|_| self.expr(&Ty::Int, d)).collect();
                    call(op, args)
                }
            }
            3 => {
                let l = self.expr(&Ty::ListInt, d);
                call("length", vec![l])
            }
            4 => {
                // guarded car
                let l = self.expr(&Ty::ListInt, d);
                let v = self.fresh("v");
                list(vec![
                    sym("let"),
                    list(vec![list(vec![sym(&v), l])]),
                    sx_if(call("null?", vec![sym(&v)]), int(self.small_int()), call("car", vec![sym(&v)])),
                ])
            }
            5 => {
                // mutable list / vector element
                let cands = self.vars_of(|v| matches!(v.kind, VKind::MutList(_) | VKind::MutVec(_)));
                if cands.is_empty() {
                    return self.leaf(&Ty::Int);
                }
                let v = self.rng.pick(&cands).clone();
                self.note_global(&v);
                match v.kind {
                    VKind::MutList(n) => {
                        let i = self.rng.usize(n);
                        call("list-ref", vec![sym(&v.name), int(i as i64)])
                    }
                    VKind::MutVec(n) => {
                        let i = self.rng.usize(n);
                        call("vector-ref", vec![sym(&v.name), int(i as i64)])
                    }
                    _ => unreachable!(),
                }
            }
            6 => {
                let v = self.expr(&Ty::VecInt, d);
                call("vector-length", vec![v])
            }
            7 => {
                // force a promise variable (possibly repeatedly over the session)
                let cands = self.vars_of(|v| matches!(v.kind, VKind::Promise));
                if cands.is_empty() {
                    let e = self.expr(&Ty::Int, d);
                    return call("force", vec![call("delay", vec![e])]);
                }
                let v = self.rng.pick(&cands).clone();
                self.note_global(&v);
                call("force", vec![sym(&v.name)])
            }
            8 | 9 => {
                // call of a Fn value
                let n = 1 + self.rng.usize(2);
                let f = self.fn_expr(n, d);
                let args: Vec<Sx> = (0..n).map(|_| self.expr(&Ty::Int, d)).collect();
                if self.rng.chance(1, 4) {
                    let mut a = vec![f];
                    a.push(call("list", args));
                    call("apply", a)
                } else {
                    app(f, args)
                }
            }
            10 => {
                // fold a list with apply
                let l = self.expr(&Ty::ListInt, d);
                call("apply", vec![sym("+"), l])
            }
            11 => {
                // apply with leading arguments and a rest list
                let l = self.expr(&Ty::ListInt, d);
                let a = self.expr(&Ty::Int, d);
                call("apply", vec![sym("+"), a, l])
            }
            12 => self.user_call(&Ty::Int, depth).unwrap_or_else(|| self.leaf(&Ty::Int)),
            13 => {
                // char->integer is not a vehicle we judge; use string-length on constants
                let s = self.leaf(&Ty::Str);
                call("string-length", vec![s])
            }
            _ => self.leaf(&Ty::Int),
        }
    }

    fn bool_expr(&mut self, depth: u32) -> Sx {
        let d = depth - 1;
        match self.rng.below(12) {
            0 | 1 | 2 => {
                let op = *self.rng.pick(&["=", "<", ">", "<=", ">="]);
                let a = self.expr(&Ty::Int, d);
                let b = self.expr(&Ty::Int, d);
                // a third of the comparisons are chains of three or four operands
                let mut args = vec![a, b];
                if self.rng.chance(1, 3) {
                    args.push(self.expr(&Ty::Int, d.min(1)));
                    if self.rng.chance(1, 2) {
                        args.push(int(self.small_int()));
                    }
                }
                call(op, args)
            }
            3 => {
                let b = self.expr(&Ty::Bool, d);
                call("not", vec![b])
            }
            4 => {
                let l = self.expr(&Ty::ListInt, d);
                call(*self.rng.pick(&["null?", "pair?"]), vec![l])
            }
            5 => {
                let a = self.expr(&Ty::Sym, d);
                let b = self.expr(&Ty::Sym, d);
                call("eq?", vec![a, b])
            }
            6 => {
                let t = self.random_data_ty();
                let a = self.expr(&t, d);
                let b = self.expr(&t, d);
                call("equal?", vec![a, b])
            }
            7 | 8 => {
                let n = self.rng.usize(4);
                let kw = if self.rng.chance(1, 2) { "and" } else { "or" };
                let args = (0..n).map(|_| self.expr(&Ty::Bool, d)).collect();
                call(kw, args)
            }
            9 => {
                let a = self.expr(&Ty::Int, d);
                let b = self.expr(&Ty::Int, d);
                call("eqv?", vec![a, b])
            }
            10 => {
                let t = self.random_data_ty();
                let a = self.expr(&t, d);
                call(*self.rng.pick(&["symbol?", "procedure?", "vector?", "string?", "boolean?"]), vec![a])
            }
            _ => self.leaf(&Ty::Bool),
        }
    }

    fn sym_expr(&mut self, depth: u32) -> Sx {
        let d = depth - 1;
        match self.rng.below(4) {
            0 => {
                let n = 1 + self.rng.usize(3);
                let items: Vec<Sx> = (0..n).map(|_| sym(self.rng.pick_str(&SYMS))).collect();
                call("car", vec![quote(list(items))])
            }
            1 => {
                let c = self.test_expr(depth);
                let a = self.leaf(&Ty::Sym);
                let b = self.leaf(&Ty::Sym);
                let _ = d;
                sx_if(c, a, b)
            }
            _ => self.leaf(&Ty::Sym),
        }
    }

    fn list_expr(&mut self, depth: u32) -> Sx {
        let d = depth - 1;
        match self.rng.below(12) {
            0 | 1 => {
                let n = self.rng.usize(4);
                let items = (0..n).map(|_| self.expr(&Ty::Int, d)).collect();
                call("list", items)
            }
            2 => {
                let a = self.expr(&Ty::Int, d);
                let l = self.expr(&Ty::ListInt, d);
                call("cons", vec![a, l])
            }
            3 => {
                let a = self.expr(&Ty::ListInt, d);
                let b = self.expr(&Ty::ListInt, d);
                call("append", vec![a, b])
            }
            4 => {
                let a = self.expr(&Ty::ListInt, d);
                call("reverse", vec![a])
            }
            5 | 6 => {
                let f = self.fn_expr(1, d);
                let l = self.expr(&Ty::ListInt, d);
                call("map", vec![f, l])
            }
            7 => {
                // two-list map over lists of syntactically equal length
                let n = self.rng.usize(4);
                let a: Vec<Sx> = (0..n).map(|_| self.expr(&Ty::Int, d)).collect();
                let b: Vec<Sx> = (0..n).map(|_| self.expr(&Ty::Int, d)).collect();
                let f = self.fn_expr(2, d);
                call("map", vec![f, call("list", a), call("list", b)])
            }
            8 => {
                // quasiquote template producing a list of ints
                let n = 1 + self.rng.usize(3);
                let mut items = vec![];
                for _ in 0..n {
                    if self.rng.chance(1, 2) {
                        items.push(int(self.small_int()));
                    } else {
                        let e = self.qq_unquote_expr(&Ty::Int, d);
                        items.push(list(vec![sym("unquote"), e]));
                    }
                }
                list(vec![sym("quasiquote"), list(items)])
            }
            9 => {
                // guarded cdr
                let l = self.expr(&Ty::ListInt, d);
                let v = self.fresh("v");
                list(vec![
                    sym("let"),
                    list(vec![list(vec![sym(&v), l])]),
                    sx_if(call("null?", vec![sym(&v)]), quote(list(vec![])), call("cdr", vec![sym(&v)])),
                ])
            }
            10 => {
                let v = self.expr(&Ty::VecInt, d);
                call("vector->list", vec![v])
            }
            _ => self.leaf(&Ty::ListInt),
        }
    }

    /// an expression for use under unquote: inside closures only if the option allows
    fn qq_unquote_expr(&mut self, ty: &Ty, d: u32) -> Sx {
        if self.in_closure_depth > 0 && !self.opt.qq_in_closures {
            // only constants and globals: hide locals
            let saved = std::mem::take(&mut self.locals);
            let e = self.expr(ty, d.min(1));
            self.locals = saved;
            e
        } else {
            self.expr(ty, d)
        }
    }

    fn vec_expr(&mut self, depth: u32) -> Sx {
        let d = depth - 1;
        match self.rng.below(6) {
            0 | 1 => {
                let n = 1 + self.rng.usize(3);
                let items = (0..n).map(|_| self.expr(&Ty::Int, d)).collect();
                call("vector", items)
            }
            2 => {
                let e = self.expr(&Ty::Int, d);
                call("make-vector", vec![int(1 + self.rng.range(0, 3)), e])
            }
            3 if self.opt.qq_vectors => {
                let n = 1 + self.rng.usize(3);
                let mut items = vec![];
                for _ in 0..n {
                    if self.rng.chance(1, 2) {
                        items.push(int(self.small_int()));
                    } else {
                        let e = self.qq_unquote_expr(&Ty::Int, d);
                        items.push(list(vec![sym("unquote"), e]));
                    }
                }
                list(vec![sym("quasiquote"), Sx::Vector(items)])
            }
            4 => {
                let l = self.expr(&Ty::ListInt, d);
                // list->vector of a possibly empty list gives a possibly empty vector: fine for VecInt consumers
                // that only take vector-length / vector->list / equal?
                call("list->vector", vec![l])
            }
            _ => self.leaf(&Ty::VecInt),
        }
    }

    fn any_expr(&mut self, depth: u32) -> Sx {
        let d = depth - 1;
        match self.rng.below(8) {
            0 | 1 => {
                // heterogeneous list
                let n = self.rng.usize(4);
                let items = (0..n)
                    .map(|_| {
                        let t = self.random_data_ty();
                        self.expr(&t, d)
                    })
                    .collect();
                call("list", items)
            }
            2 | 3 => {
                // nested quasiquote template with typed unquotes
                let t = self.qq_template(d, 0);
                list(vec![sym("quasiquote"), t])
            }
            4 => {
                let a = self.expr(&Ty::Any, d);
                let b = self.expr(&Ty::Any, d);
                call("cons", vec![a, b])
            }
            5 => quote(self.const_datum(2)),
            _ => {
                let t = self.random_data_ty();
                self.expr(&t, depth)
            }
        }
    }

    fn const_datum(&mut self, depth: u32) -> Sx {
        match self.rng.below(if depth == 0 { 5 } else { 8 }) {
            0 => int(self.small_int()),
            1 => sym(self.rng.pick_str(&SYMS)),
            2 => Sx::Bool(self.rng.chance(1, 2)),
            3 => Sx::Str(self.rng.pick(&STRS).to_string()),
            4 => Sx::Char(*self.rng.pick(&CHARS)),
            5 => {
                let n = self.rng.usize(4);
                list((0..n).map(|_| self.const_datum(depth - 1)).collect())
            }
            6 => {
                let n = 1 + self.rng.usize(2);
                let items = (0..n).map(|_| self.const_datum(depth - 1)).collect();
                Sx::Dotted(items, Box::new(int(self.small_int())))
            }
            _ => {
                let n = self.rng.usize(3);
                Sx::Vector((0..n).map(|_| self.const_datum(depth - 1)).collect())
            }
        }
    }

    fn qq_template(&mut self, d: u32, level: u32) -> Sx {
        let n = 1 + self.rng.usize(3);
        let mut items = vec![];
        for _ in 0..n {
            match self.rng.below(8) {
                0 | 1 => items.push(int(self.small_int())),
                2 => {
                    if self.opt.keyword_data_in_templates && self.rng.chance(1, 3) {
                        items.push(sym(self.rng.pick_str(&KEYWORD_SYMS)));
                    } else {
                        items.push(sym(self.rng.pick_str(&SYMS)));
                    }
                }
                3 | 4 => {
                    let t = self.random_data_ty();
                    let e = if level == 0 {
                        self.qq_unquote_expr(&t, d)
                    } else {
                        // under a nested quasiquote the unquoted text stays data: keep it closed
                        self.const_expr()
                    };
                    items.push(list(vec![sym("unquote"), e]));
                }
                5 if d > 0 => items.push(self.qq_template(d - 1, level)),
                6 if d > 0 && level == 0 && self.rng.chance(1, 2) => {
                    // nested quasiquote level: inner unquote stays quoted, double unquote is evaluated
                    let inner = self.qq_template(d - 1, level + 1);
                    items.push(list(vec![sym("quasiquote"), inner]));
                }
                7 if self.opt.qq_vectors && d > 0 => {
                    let m = 1 + self.rng.usize(2);
                    let mut vs = vec![];
                    for _ in 0..m {
                        if self.rng.chance(1, 2) || level > 0 {
                            vs.push(int(self.small_int()));
                        } else {
                            let e = self.qq_unquote_expr(&Ty::Int, d - 1);
                            vs.push(list(vec![sym("unquote"), e]));
                        }
                    }
                    items.push(Sx::Vector(vs));
                }
                _ => items.push(Sx::Str(self.rng.pick(&STRS).to_string())),
            }
        }
        // sometimes a constant dotted tail (a symbol or a number): `(,x . tail)
        if self.rng.chance(1, 6) {
            let tail = if self.rng.chance(2, 3) { sym(self.rng.pick_str(&SYMS)) } else { int(self.small_int()) };
            return Sx::Dotted(items, Box::new(tail));
        }
        // or an unquoted tail: `(a . ,e), which the reader spells (a unquote e)
        if self.rng.chance(1, 6) {
            let e = if level == 0 {
                let t = self.random_data_ty();
                self.qq_unquote_expr(&t, d)
            } else {
                self.const_expr()
            };
            return Sx::Dotted(items, Box::new(list(vec![sym("unquote"), e])));
        }
        list(items)
    }

    fn const_expr(&mut self) -> Sx {
        call("+", vec![int(self.small_int()), int(1)])
    }

    fn display_of(&mut self, e: Sx) -> Sx {
        call(if self.rng.chance(1, 2) { "display" } else { "write" }, vec![e])
    }

    /// an expression evaluated for effect (its value is unspecified or ignored)
    pub fn effect(&mut self, depth: u32) -> Sx {
        let d = depth.saturating_sub(1);
        for _ in 0..4 {
            match self.rng.below(9) {
                0 | 1 => {
                    // set! of an assignable data variable
                    let cands = self.vars_of(|v| v.assignable);
                    if cands.is_empty() {
                        continue;
                    }
                    let v = self.rng.pick(&cands).clone();
                    self.note_global(&v);
                    if let VKind::Data(t) = &v.kind {
                        let e = self.expr(t, d);
                        return list(vec![sym("set!"), sym(&v.name), e]);
                    }
                }
                2 | 3 if self.opt.allow_output => {
                    let t = self.random_data_ty();
                    let e = self.expr(&t, d);
                    return self.display_of(e);
                }
                4 => {
                    let cands = self.vars_of(|v| matches!(v.kind, VKind::MutList(_)));
                    if cands.is_empty() {
                        continue;
                    }
                    let v = self.rng.pick(&cands).clone();
                    self.note_global(&v);
                    let e = self.expr(&Ty::Int, d);
                    return call("set-car!", vec![sym(&v.name), e]);
                }
                5 => {
                    let cands = self.vars_of(|v| matches!(v.kind, VKind::MutVec(_)));
                    if cands.is_empty() {
                        continue;
                    }
                    let v = self.rng.pick(&cands).clone();
                    self.note_global(&v);
                    if let VKind::MutVec(n) = v.kind {
                        let e = self.expr(&Ty::Int, d);
                        let i = self.rng.usize(n);
                        return call("vector-set!", vec![sym(&v.name), int(i as i64), e]);
                    }
                }
                6 => {
                    let c = self.test_expr(depth);
                    let e = self.effect(d);
                    let kw = if self.rng.chance(1, 2) { "when" } else { "unless" };
                    return list(vec![sym(kw), c, e]);
                }
                7 if self.opt.allow_output => {
                    // for-each with an output effect
                    let l = self.expr(&Ty::ListInt, d);
                    let p = self.fresh("p");
                    let body = self.display_of(sym(&p));
                    return call(
                        "for-each",
                        vec![list(vec![sym("lambda"), list(vec![sym(&p)]), body]), l],
                    );
                }
                8 => {
                    // one-armed if
                    let c = self.test_expr(depth);
                    let e = self.effect(d);
                    return list(vec![sym("if"), c, e]);
                }
                _ => continue,
            }
        }
        if self.opt.allow_output {
            let e = int(self.uniq_tag());
            self.display_of(e)
        } else {
            // harmless effect-position expression
            self.expr(&Ty::Int, d)
        }
    }

    // ------------------------------------------------------------------
    // top-level forms
    // ------------------------------------------------------------------

    fn failing_form(&mut self) -> Sx {
        let inner = match self.rng.below(8) {
            0 => call(&format!("%nope-{}", self.rng.below(100)), vec![]),
            1 => sym(&format!("%unbound-{}", self.rng.below(100))),
            2 => call("car", vec![int(7)]),
            3 => call("vector-ref", vec![quote(sym("v")), int(0)]),
            4 => app(list(vec![sym("lambda"), list(vec![sym("x")]), sym("x")]), vec![]),
            5 => {
                let tag = self.uniq_tag();
                call("error", vec![Sx::Str(format!("boom-{}", tag)), int(1), quote(sym("a"))])
            }
            6 => app(int(7), vec![int(7)]),
            _ => call("if", vec![]),
        };
        // wrap at some depth with completed effects before the failure
        match self.rng.below(3) {
            0 => inner,
            1 => {
                let e = self.effect(1);
                list(vec![sym("begin"), e, inner])
            }
            _ => {
                let e = self.expr(&Ty::Int, 1);
                call("+", vec![e, inner])
            }
        }
    }

    fn define_proc(&mut self, redefine: Option<Var>) -> Sx {
        let d = self.opt.max_depth;
        let (name, sig, level) = match redefine {
            Some(v) => match v.kind {
                VKind::Proc(s) => (v.name, s, v.level),
                _ => unreachable!(),
            },
            None => {
                let nparams = self.rng.usize(6);
                let rest = self.rng.chance(1, 4);
                let ret = match self.rng.below(10) {
                    0 => Ty::Bool,
                    1 => Ty::ListInt,
                    2 => Ty::Any,
                    3 => Ty::Fn(1),
                    4 => Ty::Sym,
                    _ => Ty::Int,
                };
                let level = (self.globals.len() + self.forward.len() + 1) * 2;
                (
                    self.fresh("f"),
                    Sig {
                        params: vec![Ty::Int; nparams],
                        rest,
                        ret,
                    },
                    level,
                )
            }
        };
        // recursive template (own name, decreasing Small counter)?
        let recursive = sig.ret == Ty::Int && !sig.rest && !sig.params.is_empty() && self.rng.chance(1, 4);
        self.cur_level = level;
        let mut ps = vec![];
        let mut vars = vec![];
        for (i, t) in sig.params.iter().enumerate() {
            let pn = self.fresh("p");
            ps.push(sym(&pn));
            vars.push(Var {
                name: pn,
                kind: VKind::Data(if recursive && i == 0 { Ty::Small } else { t.clone() }),
                assignable: !recursive && self.rng.chance(1, 4) && *t == Ty::Int,
                level: 0,
            });
        }
        let rest_name = if sig.rest {
            let rn = self.fresh("rest");
            vars.push(Var {
                name: rn.clone(),
                kind: VKind::Data(Ty::ListInt),
                assignable: false,
                level: 0,
            });
            Some(rn)
        } else {
            None
        };
        let base = self.locals.len();
        self.locals.extend(vars);
        let body: Vec<Sx> = if recursive {
            let n = ps[0].clone();
            let base_e = self.expr(&Ty::Int, 1);
            let step = self.expr(&Ty::Int, 1);
            let mut rec_args = vec![call("-", vec![n.clone(), int(1)])];
            for p in ps.iter().skip(1) {
                rec_args.push(p.clone());
            }
            let rec = call(&name, rec_args);
            let non_tail = self.rng.chance(1, 2);
            vec![sx_if(
                call("<=", vec![n.clone(), int(0)]),
                base_e,
                if non_tail { call("+", vec![step, rec]) } else { rec },
            )]
        } else {
            self.in_closure_depth += if matches!(sig.ret, Ty::Fn(_)) { 0 } else { 0 };
            self.body(&sig.ret, d)
        };
        self.locals.truncate(base);
        self.cur_level = usize::MAX;
        let mut sig = sig;
        if recursive {
            sig.params[0] = Ty::Small;
        }
        let var = Var {
            name: name.clone(),
            kind: VKind::Proc(sig),
            assignable: false,
            level,
        };
        self.forward.retain(|f| f.name != name);
        if let Some(pos) = self.globals.iter().position(|g| g.name == name) {
            self.globals[pos] = var;
        } else {
            self.globals.push(var);
        }
        // (define (f . formals) body) or (define f (lambda formals body))
        let formals_tail = match &rest_name {
            Some(r) => Some(sym(r)),
            None => None,
        };
        if self.rng.chance(2, 3) {
            let mut head = vec![sym(&name)];
            head.extend(ps);
            let head = match formals_tail {
                Some(r) => Sx::Dotted(head, Box::new(r)),
                None => list(head),
            };
            let mut v = vec![sym("define"), head];
            v.extend(body);
            list(v)
        } else {
            let formals = match formals_tail {
                Some(r) if ps.is_empty() => r,
                Some(r) => Sx::Dotted(ps, Box::new(r)),
                None => list(ps),
            };
            let mut lam = vec![sym("lambda"), formals];
            lam.extend(body);
            list(vec![sym("define"), sym(&name), list(lam)])
        }
    }

    fn define_data(&mut self) -> Sx {
        let level = (self.globals.len() + self.forward.len() + 1) * 2;
        self.cur_level = level;
        let (kind, init) = self.binding_init(self.opt.max_depth);
        self.cur_level = usize::MAX;
        let name = self.fresh("g");
        let assignable = matches!(kind, VKind::Data(Ty::Int) | VKind::Data(Ty::Bool) | VKind::Data(Ty::Sym) | VKind::Data(Ty::ListInt));
        self.globals.push(Var {
            name: name.clone(),
            kind,
            assignable,
            level,
        });
        list(vec![sym("define"), sym(&name), init])
    }

    /// (define (fN) (define dA init) (lambda (pB) (set! dA (+ dA pB)) dA)): a parameterless
    /// procedure whose internal definition is captured and mutated by the closure it returns;
    /// closures of separate activations must not share the location
    fn define_factory(&mut self) -> Sx {
        let level = (self.globals.len() + self.forward.len() + 1) * 2;
        let name = self.fresh("f");
        let d = self.fresh("d");
        let p = self.fresh("p");
        let init = self.small_int();
        let with_param = self.rng.chance(1, 3);
        let q = self.fresh("p");
        let (formals, params, init_sx) = if with_param {
            (list(vec![sym(&name), sym(&q)]), vec![Ty::Int], call("+", vec![sym(&q), int(init)]))
        } else {
            (list(vec![sym(&name)]), vec![], int(init))
        };
        self.globals.push(Var {
            name: name.clone(),
            kind: VKind::Proc(Sig {
                params,
                rest: false,
                ret: Ty::Fn(1),
            }),
            assignable: false,
            level,
        });
        list(vec![
            sym("define"),
            formals,
            list(vec![sym("define"), sym(&d), init_sx]),
            list(vec![
                sym("lambda"),
                list(vec![sym(&p)]),
                list(vec![sym("set!"), sym(&d), call("+", vec![sym(&d), sym(&p)])]),
                sym(&d),
            ]),
        ])
    }

    /// a promise whose body forces the promise itself (R7RS 4.2.5): the value delivered first
    /// wins, whatever the outer activations of the body return afterwards
    fn reentrant_promise(&mut self) -> Sx {
        let c = self.fresh("c");
        let p = self.fresh("q");
        let n = 1 + self.rng.usize(4);
        let text = match self.rng.below(3) {
            0 => format!(
                "(let (({c} {n}) ({p} #f)) (set! {p} (delay (if (<= {c} 0) {c} (begin (set! {c} (- {c} 1)) (force {p}) (set! {c} (+ {c} 2)) {c})))) (list (force {p}) (force {p}) {c}))",
                c = c, p = p, n = n
            ),
            1 => format!(
                "(letrec (({c} 0) ({p} (delay (begin (set! {c} (+ {c} 1)) (if (> {c} {n}) {c} (force {p})))))) (list (force {p}) (begin (set! {c} 100) (force {p})) {c}))",
                c = c, p = p, n = n
            ),
            _ => format!(
                "(let (({c} 0) ({p} #f)) (set! {p} (delay (begin (set! {c} (+ {c} 1)) (if (< {c} {n}) (list 'outer (force {p}) {c}) (list 'inner {c}))))) (list (force {p}) {c} (force {p})))",
                c = c, p = p, n = n
            ),
        };
        crate::sx::read_one(&text).expect("reentrant promise text")
    }

    /// (define (fN q) (define (hA . r) (cons q r)) (lambda (p) (hA p 'x))): an internal definition
    /// with a rest parameter, used through closures of separate activations
    fn define_variadic_factory(&mut self) -> Sx {
        let level = (self.globals.len() + self.forward.len() + 1) * 2;
        let name = self.fresh("f");
        let h = self.fresh("h");
        let q = self.fresh("p");
        let p = self.fresh("p");
        let inner = match self.rng.below(3) {
            0 => format!("(define ({h} . r) (+ {q} (length r)))", h = h, q = q),
            1 => format!("(define ({h} a . r) (+ {q} a (length r)))", h = h, q = q),
            _ => format!("(define ({h} a) (+ {q} a))", h = h, q = q),
        };
        self.globals.push(Var {
            name: name.clone(),
            kind: VKind::Proc(Sig {
                params: vec![Ty::Int],
                rest: false,
                ret: Ty::Fn(1),
            }),
            assignable: false,
            level,
        });
        let text = format!("(define ({name} {q}) {inner} (lambda ({p}) ({h} {p})))", name = name, q = q, inner = inner, p = p, h = h);
        crate::sx::read_one(&text).expect("variadic factory text")
    }

    pub fn top_form(&mut self) -> Sx {
        self.cur_level = usize::MAX;
        if self.rng.below(1000) < self.opt.fail_permille {
            return self.failing_form();
        }
        if self.rng.chance(1, 12) {
            return if self.rng.chance(1, 3) { self.define_variadic_factory() } else { self.define_factory() };
        }
        if self.rng.chance(1, 30) {
            return self.reentrant_promise();
        }
        if !self.forward.is_empty() && self.rng.chance(1, 3) {
            let v = self.forward[0].clone();
            self.global_interaction = true;
            return self.define_proc(Some(v));
        }
        let nglob = self.globals.len();
        match self.rng.below(if nglob < 2 { 5 } else { 14 }) {
            0 | 1 => self.define_data(),
            2 | 3 | 4 => self.define_proc(None),
            5 => {
                // redefinition of a procedure with the same signature (late binding)
                let procs: Vec<Var> = self.globals.iter().filter(|g| matches!(g.kind, VKind::Proc(_))).cloned().collect();
                if procs.is_empty() {
                    return self.define_proc(None);
                }
                let v = self.rng.pick(&procs).clone();
                self.global_interaction = true;
                self.define_proc(Some(v))
            }
            6 => {
                // top-level set! / redefinition of a data global with a value of the same type
                let cands: Vec<Var> = self.globals.iter().filter(|g| g.assignable).cloned().collect();
                if cands.is_empty() {
                    return self.define_data();
                }
                let v = self.rng.pick(&cands).clone();
                self.global_interaction = true;
                if let VKind::Data(t) = &v.kind {
                    self.cur_level = v.level;
                    let e = self.expr(t, self.opt.max_depth);
                    self.cur_level = usize::MAX;
                    let kw = if self.rng.chance(1, 2) { "set!" } else { "define" };
                    return list(vec![sym(kw), sym(&v.name), e]);
                }
                self.define_data()
            }
            7 => self.effect(self.opt.max_depth),
            _ => {
                let t = match self.rng.below(8) {
                    0 => Ty::Bool,
                    1 => Ty::ListInt,
                    2 => Ty::Any,
                    3 => Ty::VecInt,
                    4 => Ty::Sym,
                    _ => Ty::Int,
                };
                self.expr(&t, self.opt.max_depth)
            }
        }
    }

    pub fn session(&mut self) -> Vec<Sx> {
        let n = self.opt.min_forms + self.rng.usize(self.opt.max_forms - self.opt.min_forms + 1);
        (0..n).map(|_| self.top_form()).collect()
    }
}

pub fn sx_if(c: Sx, a: Sx, b: Sx) -> Sx {
    list(vec![sym("if"), c, a, b])
}

trait ReplaceCdrOrNil {
    fn replace_call_cdr_or_nil(self) -> Sx;
}
impl ReplaceCdrOrNil for Sx {
    /// `(cdr-or-nil l)` is a placeholder: the test of a `=>` clause is `(memv 0 l)`-like:
    /// a list (true) or #f, both fully specified
    fn replace_call_cdr_or_nil(self) -> Sx {
        match self {
            Sx::List(v) if v.len() == 2 => call("memv", vec![int(0), v[1].clone()]),
            other => other,
        }
    }
}
