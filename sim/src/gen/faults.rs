//! Fault transformer (DESIGN §5 C07): the expression positions of a form and the faulting
//! expressions injected at them.
use crate::sx::{call, int, list, quote, sym, Sx};

pub type Path = Vec<usize>;

fn is_kw(x: &Sx, k: &str) -> bool {
    x.is_sym(k)
}

/// Paths (child indices) of every sub-expression in an evaluated position, in source order.
/// Binding lists, formals, quoted data and clause keys are not positions.
pub fn expr_paths(form: &Sx) -> Vec<Path> {
    let mut out = vec![];
    walk(form, &mut vec![], &mut out, true);
    out
}

fn walk_children(items: &[Sx], from: usize, path: &mut Path, out: &mut Vec<Path>) {
    for (i, it) in items.iter().enumerate().skip(from) {
        path.push(i);
        walk(it, path, out, true);
        path.pop();
    }
}

fn walk_bindings(b: &Sx, path: &mut Path, out: &mut Vec<Path>) {
    if let Sx::List(bs) = b {
        for (i, one) in bs.iter().enumerate() {
            if let Sx::List(pair) = one {
                if pair.len() == 2 {
                    path.push(i);
                    path.push(1);
                    walk(&pair[1], path, out, true);
                    path.pop();
                    path.pop();
                }
            }
        }
    }
}

fn walk_qq(t: &Sx, depth: usize, path: &mut Path, out: &mut Vec<Path>) {
    match t {
        Sx::List(items) if items.len() == 2 && is_kw(&items[0], "unquote") => {
            path.push(1);
            if depth == 0 {
                walk(&items[1], path, out, true);
            } else {
                walk_qq(&items[1], depth - 1, path, out);
            }
            path.pop();
        }
        Sx::List(items) if items.len() == 2 && is_kw(&items[0], "quasiquote") => {
            path.push(1);
            walk_qq(&items[1], depth + 1, path, out);
            path.pop();
        }
        Sx::List(items) | Sx::Vector(items) => {
            for (i, it) in items.iter().enumerate() {
                path.push(i);
                walk_qq(it, depth, path, out);
                path.pop();
            }
        }
        _ => {}
    }
}

fn walk(x: &Sx, path: &mut Path, out: &mut Vec<Path>, record: bool) {
    let items = match x {
        Sx::List(items) if !items.is_empty() => items,
        _ => {
            // atoms (constants, variable references) are positions too
            if record && !path.is_empty() {
                out.push(path.clone());
            }
            return;
        }
    };
    let head = items[0].as_sym().unwrap_or("");
    match head {
        "quote" => {}
        "quasiquote" => {
            if items.len() == 2 {
                path.push(1);
                walk_qq(&items[1], 0, path, out);
                path.pop();
            }
        }
        "define" => {
            // (define x e) | (define (f . formals) body...)
            if items.len() >= 3 {
                walk_children(items, 2, path, out);
            }
        }
        "lambda" => {
            if record && !path.is_empty() {
                out.push(path.clone());
            }
            walk_children(items, 2, path, out);
        }
        "set!" => {
            if record && !path.is_empty() {
                out.push(path.clone());
            }
            walk_children(items, 2, path, out);
        }
        "let" | "let*" | "letrec" | "letrec*" => {
            if record && !path.is_empty() {
                out.push(path.clone());
            }
            let named = matches!(items.get(1), Some(Sx::Sym(_)));
            let bidx = if named { 2 } else { 1 };
            if let Some(b) = items.get(bidx) {
                path.push(bidx);
                walk_bindings(b, path, out);
                path.pop();
            }
            walk_children(items, bidx + 1, path, out);
        }
        "cond" => {
            if record && !path.is_empty() {
                out.push(path.clone());
            }
            for (i, clause) in items.iter().enumerate().skip(1) {
                if let Sx::List(c) = clause {
                    path.push(i);
                    for (j, e) in c.iter().enumerate() {
                        if is_kw(e, "else") || is_kw(e, "=>") {
                            continue;
                        }
                        path.push(j);
                        walk(e, path, out, true);
                        path.pop();
                    }
                    path.pop();
                }
            }
        }
        "case" => {
            if record && !path.is_empty() {
                out.push(path.clone());
            }
            if items.len() >= 2 {
                path.push(1);
                walk(&items[1], path, out, true);
                path.pop();
            }
            for (i, clause) in items.iter().enumerate().skip(2) {
                if let Sx::List(c) = clause {
                    path.push(i);
                    for (j, e) in c.iter().enumerate().skip(1) {
                        if is_kw(e, "=>") {
                            continue;
                        }
                        path.push(j);
                        walk(e, path, out, true);
                        path.pop();
                    }
                    path.pop();
                }
            }
        }
        "if" | "and" | "or" | "when" | "unless" | "begin" | "delay" => {
            if record && !path.is_empty() {
                out.push(path.clone());
            }
            walk_children(items, 1, path, out);
        }
        _ => {
            // application: operands and operator
            if record && !path.is_empty() {
                out.push(path.clone());
            }
            walk_children(items, 0, path, out);
        }
    }
}

pub fn replace_at(form: &Sx, path: &[usize], with: &Sx) -> Sx {
    if path.is_empty() {
        return with.clone();
    }
    match form {
        Sx::List(items) => {
            let mut v = items.clone();
            if path[0] < v.len() {
                v[path[0]] = replace_at(&v[path[0]], &path[1..], with);
            }
            Sx::List(v)
        }
        Sx::Vector(items) => {
            let mut v = items.clone();
            if path[0] < v.len() {
                v[path[0]] = replace_at(&v[path[0]], &path[1..], with);
            }
            Sx::Vector(v)
        }
        Sx::Dotted(items, t) => {
            let mut v = items.clone();
            if path[0] < v.len() {
                v[path[0]] = replace_at(&v[path[0]], &path[1..], with);
            }
            Sx::Dotted(v, t.clone())
        }
        other => other.clone(),
    }
}

#[derive(Clone, Copy, Debug, PartialEq, Eq, Hash)]
pub enum FaultKind {
    Unbound,
    Type,
    Arity,
    UserError,
    NonProcedure,
    CompileSyntax,
    ReadSyntax,
    /// a derived form that no rule of its macro matches: fails while the form is being expanded
    MacroSyntax,
    /// a mutating primitive called with a range that does not fit: it must fail without having
    /// written anything (the objects are globals of the session's set-up, read again at its end)
    PartialMutator,
}

pub const RUNTIME_KINDS: [FaultKind; 6] = [
    FaultKind::Unbound,
    FaultKind::Type,
    FaultKind::Arity,
    FaultKind::UserError,
    FaultKind::NonProcedure,
    FaultKind::PartialMutator,
];

pub const ALL_KINDS: [FaultKind; 9] = [
    FaultKind::Unbound,
    FaultKind::Type,
    FaultKind::Arity,
    FaultKind::UserError,
    FaultKind::NonProcedure,
    FaultKind::CompileSyntax,
    FaultKind::ReadSyntax,
    FaultKind::MacroSyntax,
    FaultKind::PartialMutator,
];

pub const READ_FAULT_PLACEHOLDER: &str = "%READ-FAULT%";

impl FaultKind {
    pub fn name(&self) -> &'static str {
        match self {
            FaultKind::Unbound => "unbound",
            FaultKind::Type => "type",
            FaultKind::Arity => "arity",
            FaultKind::UserError => "user_error",
            FaultKind::NonProcedure => "non_procedure",
            FaultKind::CompileSyntax => "compile_syntax",
            FaultKind::ReadSyntax => "read_syntax",
            FaultKind::MacroSyntax => "macro_syntax",
            FaultKind::PartialMutator => "partial_mutator",
        }
    }

    /// the expression given to the implementation
    pub fn vm_expr(&self, n: u64) -> Sx {
        match self {
            FaultKind::Unbound => {
                if n % 2 == 0 {
                    sym(&format!("%nope-{}", n))
                } else {
                    call(&format!("%nope-{}", n), vec![int(1)])
                }
            }
            FaultKind::Type => match n % 3 {
                0 => call("car", vec![int(7)]),
                1 => call("vector-ref", vec![quote(sym("v")), int(0)]),
                _ => call("+", vec![quote(sym("a")), int(1)]),
            },
            FaultKind::Arity => {
                if n % 2 == 0 {
                    list(vec![list(vec![sym("lambda"), list(vec![sym("x")]), sym("x")])])
                } else {
                    call("car", vec![])
                }
            }
            FaultKind::UserError => call("error", vec![Sx::Str(format!("boom-{}", n)), int(1), quote(sym("a"))]),
            FaultKind::NonProcedure => list(vec![int(7), int(7)]),
            FaultKind::CompileSyntax => {
                if n % 2 == 0 {
                    list(vec![sym("if")])
                } else {
                    list(vec![sym("lambda")])
                }
            }
            FaultKind::ReadSyntax => sym(READ_FAULT_PLACEHOLDER),
            FaultKind::PartialMutator => crate::sx::read_one(match n % 4 {
                0 => "(vector-copy! %fault-vec 1 (vector 'p 'q 'r 's))",
                1 => "(vector-fill! %fault-vec 'z 1 9)",
                2 => "(string-fill! %fault-str #\\z 1 9)",
                _ => "(vector-copy! %fault-vec 0 (vector 1 2) 1 5)",
            })
            .unwrap(),
            FaultKind::MacroSyntax => match n % 3 {
                0 => list(vec![sym("let")]),
                1 => crate::sx::read_one("(let ((a 1)) (let* ((b a)) (let loop ((i 0)) (cond))))").unwrap(),
                _ => crate::sx::read_one("(when #t (let* (x) x))").unwrap(),
            },
        }
    }
}

/// what the reference machine evaluates at the fault site
pub fn ref_expr(kind: FaultKind, n: u64) -> Sx {
    match kind {
        // a user error carries a payload that is compared
        FaultKind::UserError => kind.vm_expr(n),
        FaultKind::CompileSyntax | FaultKind::MacroSyntax => kind.vm_expr(n),
        FaultKind::ReadSyntax => list(vec![sym("if")]), // the whole form is rejected before any effect
        _ => call("%inject", vec![]),
    }
}

/// text of a form for the implementation (read faults are spliced in here)
pub fn vm_text(form: &Sx) -> String {
    form.text().replace(READ_FAULT_PLACEHOLDER, "#q")
}
