pub mod g01;
pub mod templates;
