pub mod g01;
