pub mod faults;
pub mod g01;
pub mod g02;
pub mod g05;
pub mod g11;
pub mod g14;
pub mod g15;
pub mod templates;
