use marsim::gen::g01::{Options, G01};
use marsim::report::Tier;
use marsim::rng::Rng;
use std::path::Path;

fn usage() -> ! {
    eprintln!("usage: marsim check <ID> [--tier quick|thorough] | replay <file> | gen01 <seed>");
    std::process::exit(2);
}

fn main() {
    let args: Vec<String> = std::env::args().collect();
    if args.len() < 2 {
        usage();
    }
    marsim::kernel::install_panic_hook();
    match args[1].as_str() {
        "gen01" => {
            let seed: u64 = args.get(2).and_then(|s| s.parse().ok()).unwrap_or(1);
            let mut rng = Rng::new(seed);
            let opt = Options::default();
            let mut g = G01::new(&mut rng, &opt);
            for f in g.session() {
                println!("{}", f.text());
            }
        }
        "check" => {
            let id = args.get(2).cloned().unwrap_or_else(|| usage());
            let mut tier = match std::env::var("VERIF_TIER").as_deref() {
                Ok("thorough") => Tier::Thorough,
                _ => Tier::Quick,
            };
            let mut i = 3;
            while i < args.len() {
                match args[i].as_str() {
                    "--tier" => {
                        tier = match args.get(i + 1).map(|s| s.as_str()) {
                            Some("thorough") => Tier::Thorough,
                            Some("quick") => Tier::Quick,
                            _ => usage(),
                        };
                        i += 2;
                    }
                    "--replay" => {
                        let f = args.get(i + 1).cloned().unwrap_or_else(|| usage());
                        std::process::exit(marsim::props::replay_file(Path::new(&f)));
                    }
                    _ => usage(),
                }
            }
            let seed = marsim::runner::verif_seed();
            if matches!(tier, Tier::Thorough) {
                marsim::runner::RUN_LIMIT_SECS.store(900, std::sync::atomic::Ordering::Relaxed);
            }
            std::process::exit(marsim::props::check(&id, tier, seed));
        }
        "debug-c03-tpl" => {
            let from: u64 = args[2].parse().unwrap();
            let to: u64 = args[3].parse().unwrap();
            for i in from..to {
                eprintln!("tpl run {}", i);
                let r = marsim::props::gcsearch::one_run(
                    marsim::props::gcsearch::Attribution::C03,
                    1,
                    1_000_000 + i,
                    marsim::props::gcsearch::workload_templates,
                    3,
                );
                eprintln!("  {} evals={} violation={:?}", r.workload, r.evals, r.violation.map(|v| v.signature));
            }
        }
        "debug-c01" => {
            for a in &args[2..] {
                let i: u64 = a.parse().unwrap();
                eprintln!("c01 run {}", i);
                marsim::props::c01::debug_one(1, i);
            }
        }
        "eval" => {
            let mut sim = marsim::kernel::Sim::new(&marsim::kernel::Knobs::default(), marsim::kernel::GcPlan::None, marsim::kernel::SlicePlan::None, 0);
            let mut m = marsim::refscheme::machine::Machine::new();
            for t in &args[2..] {
                let o = sim.eval_form(t);
                println!("marwood: {} out={:?}", o.outcome.brief(), o.output.iter().map(|e| e.value.show()).collect::<Vec<_>>());
                match marsim::sx::read_one(t) {
                    Ok(sx) => {
                        let r = m.run_form(&sx);
                        println!("ref:     {:?} out={:?}", r.outcome, r.output.iter().map(|e| e.value.show()).collect::<Vec<_>>());
                    }
                    Err(e) => println!("ref: unreadable {}", e),
                }
            }
        }
        "rerun" => {
            // marsim rerun <ID> <run> [seed]: one run of a batch, for debugging
            let id = args.get(2).cloned().unwrap_or_else(|| usage());
            let run: u64 = args.get(3).and_then(|s| s.parse().ok()).unwrap_or_else(|| usage());
            let seed: u64 = args.get(4).and_then(|s| s.parse().ok()).unwrap_or(1);
            marsim::report::set_minimise(false);
            let def = marsim::props::registry().into_iter().find(|d| d.id == id).unwrap_or_else(|| usage());
            match def.rerun.and_then(|f| f(Tier::Quick, seed, run)) {
                Some(v) => println!("violation: {} / {}\n{}", v.oracle, v.signature, v.detail),
                None => println!("clean (or the property has no rerun)"),
            }
        }
        "c19-survey" => {
            marsim::props::c19::survey();
        }
        "c19-worker" => {
            std::process::exit(marsim::props::c19::worker_main(&args[2..]));
        }
        "replay" => {
            let f = args.get(2).cloned().unwrap_or_else(|| usage());
            // a single case: minutes at most (C19 cells have their own per-worker watchdog)
            let limit = std::env::var("VERIF_REPLAY_LIMIT_SECS").ok().and_then(|s| s.parse().ok()).unwrap_or(600);
            // on a thread with the same roomy native stack as the batch workers have
            let code = std::thread::Builder::new()
                .stack_size(256 << 20)
                .spawn(move || marsim::runner::with_process_watchdog(limit, || marsim::props::replay_file(Path::new(&f))))
                .expect("spawn replay thread")
                .join()
                .unwrap_or(2);
            std::process::exit(code);
        }
        _ => usage(),
    }
}
