//! S-expressions of the harness: the generators build them, the reference
//! machine interprets them, and their text is what marwood is fed.
//! Independent of every marwood module.
use std::fmt::Write;

#[derive(Clone, Debug, PartialEq, Eq, Hash)]
pub enum Sx {
    Int(i64),
    Bool(bool),
    Char(char),
    Str(String),
    Sym(String),
    /// proper list; the empty list is `List(vec![])`
    List(Vec<Sx>),
    /// improper list with at least one element before the dot
    Dotted(Vec<Sx>, Box<Sx>),
    Vector(Vec<Sx>),
}

pub fn sym(s: &str) -> Sx {
    Sx::Sym(s.to_string())
}
pub fn int(i: i64) -> Sx {
    Sx::Int(i)
}
pub fn list(v: Vec<Sx>) -> Sx {
    Sx::List(v)
}
pub fn nil() -> Sx {
    Sx::List(vec![])
}
pub fn quote(x: Sx) -> Sx {
    Sx::List(vec![sym("quote"), x])
}
pub fn call(f: &str, args: Vec<Sx>) -> Sx {
    let mut v = vec![sym(f)];
    v.extend(args);
    Sx::List(v)
}
pub fn app(f: Sx, args: Vec<Sx>) -> Sx {
    let mut v = vec![f];
    v.extend(args);
    Sx::List(v)
}

#[macro_export]
macro_rules! sx {
    ($f:expr $(, $a:expr)* $(,)?) => {
        $crate::sx::Sx::List(vec![$crate::sx::Sx::from($f) $(, $crate::sx::Sx::from($a))*])
    };
}

impl From<&str> for Sx {
    fn from(s: &str) -> Sx {
        Sx::Sym(s.to_string())
    }
}
impl From<i64> for Sx {
    fn from(i: i64) -> Sx {
        Sx::Int(i)
    }
}
impl From<bool> for Sx {
    fn from(b: bool) -> Sx {
        Sx::Bool(b)
    }
}
impl From<&Sx> for Sx {
    fn from(s: &Sx) -> Sx {
        s.clone()
    }
}

impl Sx {
    pub fn is_sym(&self, s: &str) -> bool {
        matches!(self, Sx::Sym(x) if x == s)
    }
    pub fn as_sym(&self) -> Option<&str> {
        match self {
            Sx::Sym(s) => Some(s),
            _ => None,
        }
    }
    pub fn as_list(&self) -> Option<&[Sx]> {
        match self {
            Sx::List(v) => Some(v),
            _ => None,
        }
    }
    pub fn head_is(&self, s: &str) -> bool {
        match self {
            Sx::List(v) => v.first().map(|h| h.is_sym(s)).unwrap_or(false),
            _ => false,
        }
    }
    pub fn size(&self) -> usize {
        match self {
            Sx::List(v) | Sx::Vector(v) => 1 + v.iter().map(|x| x.size()).sum::<usize>(),
            Sx::Dotted(v, t) => 1 + v.iter().map(|x| x.size()).sum::<usize>() + t.size(),
            _ => 1,
        }
    }

    pub fn write(&self, out: &mut String) {
        match self {
            Sx::Int(i) => {
                let _ = write!(out, "{}", i);
            }
            Sx::Bool(true) => out.push_str("#t"),
            Sx::Bool(false) => out.push_str("#f"),
            Sx::Char(c) => write_char(*c, out),
            Sx::Str(s) => write_string(s, out),
            Sx::Sym(s) => out.push_str(s),
            Sx::List(v) => {
                if v.len() == 2 {
                    if let Sx::Sym(h) = &v[0] {
                        let sugar = match h.as_str() {
                            "quote" => Some("'"),
                            "quasiquote" => Some("`"),
                            "unquote" => Some(","),
                            _ => None,
                        };
                        if let Some(sugar) = sugar {
                            out.push_str(sugar);
                            v[1].write(out);
                            return;
                        }
                    }
                }
                out.push('(');
                for (i, x) in v.iter().enumerate() {
                    if i > 0 {
                        out.push(' ');
                    }
                    x.write(out);
                }
                out.push(')');
            }
            Sx::Dotted(v, t) => {
                out.push('(');
                for x in v.iter() {
                    x.write(out);
                    out.push(' ');
                }
                out.push_str(". ");
                t.write(out);
                out.push(')');
            }
            Sx::Vector(v) => {
                out.push_str("#(");
                for (i, x) in v.iter().enumerate() {
                    if i > 0 {
                        out.push(' ');
                    }
                    x.write(out);
                }
                out.push(')');
            }
        }
    }

    pub fn text(&self) -> String {
        let mut s = String::new();
        self.write(&mut s);
        s
    }
}

pub fn write_char(c: char, out: &mut String) {
    // spellings the pinned reader accepts: a single non-alphanumeric-run
    // character, or #\x<hex>
    match c {
        ' ' => out.push_str("#\\space"),
        '\n' => out.push_str("#\\newline"),
        c if c.is_ascii_graphic() => {
            out.push_str("#\\");
            out.push(c);
        }
        c => {
            let _ = write!(out, "#\\x{:x}", c as u32);
        }
    }
}

pub fn write_string(s: &str, out: &mut String) {
    out.push('"');
    for c in s.chars() {
        match c {
            '"' => out.push_str("\\\""),
            '\\' => out.push_str("\\\\"),
            '\n' => out.push_str("\\n"),
            '\t' => out.push_str("\\t"),
            '\r' => out.push_str("\\r"),
            c if (c as u32) < 0x20 || c as u32 == 0x7f => {
                let _ = write!(out, "\\x{:x};", c as u32);
            }
            c => out.push(c),
        }
    }
    out.push('"');
}

/// Minimal reader for texts written by `Sx::write` (used to load replay files).
pub fn read_all(text: &str) -> Result<Vec<Sx>, String> {
    let chars: Vec<char> = text.chars().collect();
    let mut pos = 0;
    let mut out = vec![];
    loop {
        skip_ws(&chars, &mut pos);
        if pos >= chars.len() {
            return Ok(out);
        }
        out.push(read(&chars, &mut pos)?);
    }
}

pub fn read_one(text: &str) -> Result<Sx, String> {
    let v = read_all(text)?;
    if v.len() == 1 {
        Ok(v.into_iter().next().unwrap())
    } else {
        Err(format!("expected one datum, found {}", v.len()))
    }
}

fn skip_ws(c: &[char], pos: &mut usize) {
    while *pos < c.len() {
        if c[*pos].is_whitespace() {
            *pos += 1;
        } else if c[*pos] == ';' {
            while *pos < c.len() && c[*pos] != '\n' {
                *pos += 1;
            }
        } else {
            break;
        }
    }
}

fn is_delim(c: char) -> bool {
    c.is_whitespace() || matches!(c, '(' | ')' | '[' | ']' | '"' | '\'' | '`' | ',')
}

fn read(c: &[char], pos: &mut usize) -> Result<Sx, String> {
    skip_ws(c, pos);
    if *pos >= c.len() {
        return Err("eof".into());
    }
    match c[*pos] {
        '(' | '[' => {
            *pos += 1;
            let mut items = vec![];
            loop {
                skip_ws(c, pos);
                if *pos >= c.len() {
                    return Err("eof in list".into());
                }
                if c[*pos] == ')' || c[*pos] == ']' {
                    *pos += 1;
                    return Ok(Sx::List(items));
                }
                if c[*pos] == '.'
                    && *pos + 1 < c.len()
                    && is_delim(c[*pos + 1])
                    && !items.is_empty()
                {
                    *pos += 1;
                    let tail = read(c, pos)?;
                    skip_ws(c, pos);
                    if *pos < c.len() && (c[*pos] == ')' || c[*pos] == ']') {
                        *pos += 1;
                        return Ok(match tail {
                            Sx::List(t) => {
                                items.extend(t);
                                Sx::List(items)
                            }
                            Sx::Dotted(t, tt) => {
                                items.extend(t);
                                Sx::Dotted(items, tt)
                            }
                            t => Sx::Dotted(items, Box::new(t)),
                        });
                    }
                    return Err("bad dotted tail".into());
                }
                items.push(read(c, pos)?);
            }
        }
        ')' | ']' => Err("unexpected )".into()),
        '\'' => {
            *pos += 1;
            Ok(Sx::List(vec![sym("quote"), read(c, pos)?]))
        }
        '`' => {
            *pos += 1;
            Ok(Sx::List(vec![sym("quasiquote"), read(c, pos)?]))
        }
        ',' => {
            *pos += 1;
            Ok(Sx::List(vec![sym("unquote"), read(c, pos)?]))
        }
        '"' => {
            *pos += 1;
            let mut s = String::new();
            loop {
                if *pos >= c.len() {
                    return Err("eof in string".into());
                }
                let ch = c[*pos];
                *pos += 1;
                match ch {
                    '"' => return Ok(Sx::Str(s)),
                    '\\' => {
                        let e = c[*pos];
                        *pos += 1;
                        match e {
                            'n' => s.push('\n'),
                            't' => s.push('\t'),
                            'r' => s.push('\r'),
                            'x' => {
                                let mut v = 0u32;
                                while c[*pos] != ';' {
                                    v = v * 16 + c[*pos].to_digit(16).ok_or("bad hex")?;
                                    *pos += 1;
                                }
                                *pos += 1;
                                s.push(char::from_u32(v).ok_or("bad scalar")?);
                            }
                            e => s.push(e),
                        }
                    }
                    ch => s.push(ch),
                }
            }
        }
        '#' => {
            if *pos + 1 >= c.len() {
                return Err("lone #".into());
            }
            match c[*pos + 1] {
                '(' => {
                    *pos += 1;
                    match read(c, pos)? {
                        Sx::List(v) => Ok(Sx::Vector(v)),
                        _ => Err("bad vector".into()),
                    }
                }
                '\\' => {
                    *pos += 2;
                    let start = *pos;
                    *pos += 1;
                    if c[start].is_ascii_alphabetic() {
                        while *pos < c.len() && c[*pos].is_ascii_alphanumeric() {
                            *pos += 1;
                        }
                    }
                    let name: String = c[start..*pos].iter().collect();
                    if name.chars().count() == 1 {
                        Ok(Sx::Char(name.chars().next().unwrap()))
                    } else if name == "space" {
                        Ok(Sx::Char(' '))
                    } else if name == "newline" {
                        Ok(Sx::Char('\n'))
                    } else if let Some(hex) = name.strip_prefix('x') {
                        let v = u32::from_str_radix(hex, 16).map_err(|e| e.to_string())?;
                        Ok(Sx::Char(char::from_u32(v).ok_or("bad scalar")?))
                    } else {
                        Err(format!("unknown char name {}", name))
                    }
                }
                't' => {
                    *pos += 2;
                    Ok(Sx::Bool(true))
                }
                'f' => {
                    *pos += 2;
                    Ok(Sx::Bool(false))
                }
                other => Err(format!("unknown # syntax {}", other)),
            }
        }
        _ => {
            let start = *pos;
            while *pos < c.len() && !is_delim(c[*pos]) {
                *pos += 1;
            }
            let tok: String = c[start..*pos].iter().collect();
            if let Ok(i) = tok.parse::<i64>() {
                if !tok.starts_with('+') {
                    return Ok(Sx::Int(i));
                }
            }
            Ok(Sx::Sym(tok))
        }
    }
}

#[cfg(test)]
mod tests {
    use super::*;
    #[test]
    fn roundtrip() {
        let t = "(define (f a . b) '(1 #\\a \"x\\\"y\" #(1 2) (a . b)) `(1 ,x))";
        let s = read_one(t).unwrap();
        assert_eq!(read_one(&s.text()).unwrap(), s);
    }
}
