//! Independent heap auditor (DESIGN §4.4). Runs on the read-only views of hook H1 with
//! its own traversal; it never calls the collector's marker.
use marwood::vm::gc::State;
use marwood::vm::opcode::OpCode;
use marwood::vm::vcell::VCell;
use marwood::vm::Vm;
use std::collections::HashMap;

#[derive(Clone, Debug, PartialEq, Eq)]
pub struct Finding {
    /// I1..I4
    pub invariant: &'static str,
    pub cell: usize,
    pub kind: String,
    pub detail: String,
}

#[derive(Clone, Debug, Default)]
pub struct AuditReport {
    pub findings: Vec<Finding>,
    pub capacity: usize,
    pub allocated: usize,
    pub free: usize,
    pub reachable_precise: usize,
    pub reachable_conservative: usize,
    pub retained_via_jump_alias: usize,
    pub symbols: usize,
    pub live_continuations: usize,
}

fn kind_name(v: &VCell) -> &'static str {
    v.type_text()
}

/// Heap references held directly by a value (not recursing into other heap cells).
/// `precise`: a `Ptr` that is the operand of JMP/JNT inside bytecode is an offset, not a reference.
fn refs_of(v: &VCell, precise: bool, out: &mut Vec<usize>, live_conts: &mut usize) {
    match v {
        VCell::Pair(a, b) => {
            out.push(*a);
            out.push(*b);
        }
        VCell::Ptr(p) => out.push(*p),
        VCell::Closure(l, e) => {
            out.push(*l);
            out.push(*e);
        }
        VCell::Lambda(lambda) => {
            let bc = &lambda.bc;
            let mut i = 0;
            while i < bc.len() {
                if precise {
                    if let VCell::OpCode(OpCode::Jmp) | VCell::OpCode(OpCode::Jnt) = &bc[i] {
                        // skip the offset operand
                        i += 2;
                        continue;
                    }
                }
                refs_of(&bc[i], precise, out, live_conts);
                i += 1;
            }
            for a in &lambda.args {
                refs_of(a, precise, out, live_conts);
            }
            for (sym, _) in lambda.envmap.get_map() {
                refs_of(sym, precise, out, live_conts);
            }
        }
        VCell::LexicalEnv(env) => {
            for i in 0..env.slot_len() {
                refs_of(&env.get(i), precise, out, live_conts);
            }
        }
        VCell::LexicalEnvPtr(e, _) => out.push(*e),
        VCell::Vector(vector) => {
            for i in 0..vector.len() {
                if let Some(x) = vector.get(i) {
                    refs_of(&x, precise, out, live_conts);
                }
            }
        }
        VCell::Continuation(cont) => {
            *live_conts += 1;
            // only the slots up to the saved stack pointer are live in a captured stack
            let saved = cont.stack();
            for i in 0..=saved.get_sp() {
                if let Ok(x) = saved.get(i) {
                    refs_of(x, precise, out, live_conts);
                }
            }
            out.push(cont.ip().0);
            out.push(cont.ep());
        }
        VCell::EnvironmentPointer(e) => out.push(*e),
        VCell::InstructionPointer(l, _) => out.push(*l),
        VCell::Acc
        | VCell::ArgumentCount(_)
        | VCell::BasePointer(_)
        | VCell::BasePointerOffset(_)
        | VCell::Bool(_)
        | VCell::Char(_)
        | VCell::BuiltInProc(_)
        | VCell::GlobalEnvSlot(_)
        | VCell::LexicalEnvSlot(_)
        | VCell::Nil
        | VCell::Number(_)
        | VCell::OpCode(_)
        | VCell::String(_)
        | VCell::Symbol(_)
        | VCell::Macro(_)
        | VCell::Undefined
        | VCell::Void => {}
    }
}

/// Root set enumerated by the auditor's own code: global bindings (symbol cells) and slots,
/// stack[0..=sp], acc, the running code object, the current environment.
fn roots(vm: &Vm, precise: bool, live_conts: &mut usize, registers: bool) -> Vec<(usize, &'static str)> {
    let mut out = vec![];
    let mut tmp = vec![];
    let g = vm.verif_globenv();
    // the deep bindings are read through their own hook view, not through the iterator that the
    // collector itself uses for its root set
    let mut syms: Vec<usize> = g.verif_bindings().keys().cloned().collect();
    syms.sort();
    for sym in syms {
        out.push((sym, "global-binding"));
    }
    for slot in g.iter_slots() {
        tmp.clear();
        refs_of(slot, precise, &mut tmp, live_conts);
        for r in &tmp {
            out.push((*r, "global-slot"));
        }
    }
    if !registers {
        return out;
    }
    let stack = vm.verif_stack();
    let sp = stack.get_sp();
    for i in 0..=sp {
        if let Ok(v) = stack.get(i) {
            tmp.clear();
            refs_of(v, precise, &mut tmp, live_conts);
            for r in &tmp {
                out.push((*r, "stack"));
            }
        }
    }
    tmp.clear();
    refs_of(vm.verif_acc(), precise, &mut tmp, live_conts);
    for r in &tmp {
        out.push((*r, "acc"));
    }
    out.push((vm.verif_ip().0, "ip"));
    out.push((vm.verif_ep(), "ep"));
    out
}

/// returns (visited bitmap, first-root-kind per cell)
fn reach(vm: &Vm, precise: bool, live_conts: &mut usize, registers: bool) -> (Vec<bool>, Vec<u8>) {
    let cells = vm.verif_heap().verif_cells();
    let n = cells.len();
    let mut seen = vec![false; n];
    let mut via = vec![0u8; n];
    let mut work: Vec<usize> = vec![];
    let root_kinds = ["?", "global-binding", "global-slot", "stack", "acc", "ip", "ep"];
    for (r, kind) in roots(vm, precise, live_conts, registers) {
        if r < n && !seen[r] {
            seen[r] = true;
            via[r] = root_kinds.iter().position(|k| *k == kind).unwrap_or(0) as u8;
            work.push(r);
        }
    }
    let mut tmp = vec![];
    while let Some(i) = work.pop() {
        tmp.clear();
        refs_of(&cells[i], precise, &mut tmp, live_conts);
        for r in &tmp {
            if *r < n && !seen[*r] {
                seen[*r] = true;
                via[*r] = via[i];
                work.push(*r);
            }
        }
    }
    (seen, via)
}

pub const ROOT_KINDS: [&str; 7] = [
    "?",
    "global-binding",
    "global-slot",
    "stack",
    "acc",
    "ip",
    "ep",
];

pub fn audit(vm: &Vm) -> AuditReport {
    audit_with(vm, false)
}

/// `between_evaluations`: the VM is at rest between two evaluations (the simulator's own
/// collections while it installs the ballast). The registers - stack, acc, ip, ep - then hold
/// leftovers of a finished evaluation that no program can reach any more, so the *safety* pass
/// (what must have survived) starts from the globals alone; the *retention* pass (what may have
/// survived) still starts from the registers too, because the collector is free to treat them as roots.
pub fn audit_with(vm: &Vm, between_evaluations: bool) -> AuditReport {
    let heap = vm.verif_heap();
    let cells = heap.verif_cells();
    let n = cells.len();
    let mut report = AuditReport {
        capacity: n,
        ..Default::default()
    };
    let mut lc = 0usize;
    let (precise, via) = reach(vm, true, &mut lc, !between_evaluations);
    report.live_continuations = lc;
    let mut lc2 = 0usize;
    let (conservative, _) = reach(vm, false, &mut lc2, true);
    let free_list = heap.verif_free_list();
    let mut on_free = vec![0u32; n];
    for f in free_list {
        if *f < n {
            on_free[*f] += 1;
        } else {
            report.findings.push(Finding {
                invariant: "I3",
                cell: *f,
                kind: "-".into(),
                detail: "free-list entry out of bounds".into(),
            });
        }
    }
    report.free = free_list.len();
    let mut push = |report: &mut AuditReport, f: Finding| {
        if report.findings.len() < 8 {
            report.findings.push(f);
        }
    };
    for i in 0..n {
        let state = heap.verif_gc_state(i);
        let allocated = matches!(state, Some(State::Allocated));
        if allocated {
            report.allocated += 1;
        }
        if precise[i] {
            report.reachable_precise += 1;
        }
        if conservative[i] {
            report.reachable_conservative += 1;
            if !precise[i] {
                report.retained_via_jump_alias += 1;
            }
        }
        // I1 safety
        if precise[i] && (!allocated || on_free[i] > 0) {
            push(
                &mut report,
                Finding {
                    invariant: "I1",
                    cell: i,
                    kind: kind_name(&cells[i]).into(),
                    detail: format!(
                        "reachable cell (root kind {}) is {:?}{}",
                        ROOT_KINDS[via[i] as usize],
                        state,
                        if on_free[i] > 0 { " and on the free list" } else { "" }
                    ),
                },
            );
        }
        // I2 no garbage survives
        if allocated && !conservative[i] {
            if std::env::var("VERIF_AUDIT_DEBUG").is_ok() {
                let mut who = vec![];
                let mut tmp = vec![];
                let mut lc = 0usize;
                for (j, c) in cells.iter().enumerate() {
                    tmp.clear();
                    refs_of(c, false, &mut tmp, &mut lc);
                    if tmp.contains(&i) {
                        who.push(format!("{}:{}:{:?}:reach={}", j, kind_name(c), heap.verif_gc_state(j), conservative[j]));
                    }
                }
                eprintln!("I2 cell {} {:?} referrers {:?}", i, cells[i], who);
            }
            push(
                &mut report,
                Finding {
                    invariant: "I2",
                    cell: i,
                    kind: kind_name(&cells[i]).into(),
                    detail: "allocated cell unreachable from the roots after a collection".into(),
                },
            );
        }
        // I3 bookkeeping
        if on_free[i] > 1 {
            push(
                &mut report,
                Finding {
                    invariant: "I3",
                    cell: i,
                    kind: kind_name(&cells[i]).into(),
                    detail: format!("cell is on the free list {} times", on_free[i]),
                },
            );
        }
        if on_free[i] > 0 && !matches!(state, Some(State::Free)) {
            push(
                &mut report,
                Finding {
                    invariant: "I3",
                    cell: i,
                    kind: kind_name(&cells[i]).into(),
                    detail: format!(
                        "free-list cell has state {:?}{}",
                        state,
                        if conservative[i] && !precise[i] {
                            " (reachable only through a jump offset)"
                        } else {
                            ""
                        }
                    ),
                },
            );
        }
        if on_free[i] == 0 && matches!(state, Some(State::Free)) {
            push(
                &mut report,
                Finding {
                    invariant: "I3",
                    cell: i,
                    kind: kind_name(&cells[i]).into(),
                    detail: "cell is Free but not on the free list".into(),
                },
            );
        }
        if matches!(state, Some(State::Used)) {
            push(
                &mut report,
                Finding {
                    invariant: "I3",
                    cell: i,
                    kind: kind_name(&cells[i]).into(),
                    detail: "cell still marked Used after the sweep".into(),
                },
            );
        }
    }
    if heap.used_size() + heap.free_size() != heap.capacity() {
        push(
            &mut report,
            Finding {
                invariant: "I3",
                cell: 0,
                kind: "-".into(),
                detail: "used + free != capacity".into(),
            },
        );
    }
    // I4 intern table
    let table = heap.verif_symbol_table();
    report.symbols = table.len();
    let mut by_name: HashMap<&str, usize> = HashMap::new();
    for (i, cell) in cells.iter().enumerate() {
        if let VCell::Symbol(name) = cell {
            if matches!(heap.verif_gc_state(i), Some(State::Allocated)) {
                match table.get(name.as_str()) {
                    Some(idx) if *idx == i => {}
                    Some(idx) => push(
                        &mut report,
                        Finding {
                            invariant: "I4",
                            cell: i,
                            kind: "symbol".into(),
                            detail: format!(
                                "allocated symbol cell for a name whose table entry is cell {}",
                                idx
                            ),
                        },
                    ),
                    None => push(
                        &mut report,
                        Finding {
                            invariant: "I4",
                            cell: i,
                            kind: "symbol".into(),
                            detail: "allocated symbol cell without a table entry".into(),
                        },
                    ),
                }
                if by_name.insert(name.as_str(), i).is_some() {
                    push(
                        &mut report,
                        Finding {
                            invariant: "I4",
                            cell: i,
                            kind: "symbol".into(),
                            detail: "two allocated symbol cells with one name".into(),
                        },
                    );
                }
            }
        }
    }
    // entries sorted for a deterministic report
    let mut entries: Vec<(&String, &usize)> = table.iter().collect();
    entries.sort();
    for (name, idx) in entries {
        let ok = matches!(cells.get(*idx), Some(VCell::Symbol(s)) if s.as_str() == name.as_str())
            && matches!(heap.verif_gc_state(*idx), Some(State::Allocated));
        if !ok {
            push(
                &mut report,
                Finding {
                    invariant: "I4",
                    cell: *idx,
                    kind: "symbol-table".into(),
                    detail: "table entry does not point at an allocated symbol cell of that name"
                        .into(),
                },
            );
        }
    }
    report
}
