//! Evidence files, replay files, known findings, and the VIOLATION / KNOWN-FINDING lines.
use serde_json::{json, Map, Value};
use std::collections::BTreeMap;
use std::path::{Path, PathBuf};
use std::time::Instant;

static MINIMISE: std::sync::atomic::AtomicBool = std::sync::atomic::AtomicBool::new(true);

/// Phase 1 of a check only detects violations; minimisation (hundreds of re-executions each) is
/// done in phase 2 for the first few violating runs only, so that a tree with many violations
/// does not make the check slow.
pub fn set_minimise(on: bool) {
    MINIMISE.store(on, std::sync::atomic::Ordering::SeqCst);
}
pub fn minimise_on() -> bool {
    MINIMISE.load(std::sync::atomic::Ordering::SeqCst)
}

pub fn verif_dir() -> PathBuf {
    std::env::var("VERIF_DIR")
        .map(PathBuf::from)
        .unwrap_or_else(|_| PathBuf::from("/verif"))
}

#[derive(Clone, Copy, Debug, PartialEq, Eq)]
pub enum Tier {
    Quick,
    Thorough,
}

impl Tier {
    pub fn name(&self) -> &'static str {
        match self {
            Tier::Quick => "quick",
            Tier::Thorough => "thorough",
        }
    }
}

#[derive(Clone, Debug)]
pub struct Violation {
    pub property: String,
    pub oracle: String,
    pub signature: String,
    pub run: u64,
    /// the replay case (property specific JSON)
    pub case: Value,
    pub detail: String,
}

pub struct Evidence {
    pub property: String,
    pub tier: Tier,
    pub seed: u64,
    pub level: &'static str,
    pub rule: String,
    pub evaluations: u64,
    pub distinct_nontrivial: u64,
    pub samples: Vec<Value>,
    pub counters: BTreeMap<String, u64>,
    pub faults: BTreeMap<String, u64>,
    pub probes: BTreeMap<String, u64>,
    pub extra: Map<String, Value>,
    pub assumptions: Vec<String>,
    pub notes: Vec<String>,
    pub known_findings_reported: Vec<String>,
    pub violations: u64,
    pub start: Instant,
    pub exhaustive: Option<bool>,
}

impl Evidence {
    pub fn new(property: &str, tier: Tier, seed: u64, level: &'static str) -> Evidence {
        Evidence {
            property: property.into(),
            tier,
            seed,
            level,
            rule: String::new(),
            evaluations: 0,
            distinct_nontrivial: 0,
            samples: vec![],
            counters: BTreeMap::new(),
            faults: BTreeMap::new(),
            probes: BTreeMap::new(),
            extra: Map::new(),
            assumptions: vec![],
            notes: vec![],
            known_findings_reported: vec![],
            violations: 0,
            start: Instant::now(),
            exhaustive: None,
        }
    }

    pub fn fault(&mut self, kind: &str, n: u64) {
        *self.faults.entry(kind.into()).or_insert(0) += n;
    }
    pub fn probe(&mut self, kind: &str, n: u64) {
        *self.probes.entry(kind.into()).or_insert(0) += n;
    }
    pub fn count(&mut self, kind: &str, n: u64) {
        *self.counters.entry(kind.into()).or_insert(0) += n;
    }

    pub fn write(&self) {
        let wall = self.start.elapsed().as_secs_f64();
        let mut coverage = Map::new();
        coverage.insert("evaluations".into(), json!(self.evaluations));
        coverage.insert("distinct_nontrivial".into(), json!(self.distinct_nontrivial));
        coverage.insert("rule".into(), json!(self.rule));
        coverage.insert("samples".into(), Value::Array(self.samples.clone()));
        if let Some(e) = self.exhaustive {
            coverage.insert("exhaustive".into(), json!(e));
        }
        coverage.insert("seeds".into(), json!([self.seed]));
        coverage.insert(
            "runs_per_hour".into(),
            json!(if wall > 0.0 { (self.evaluations as f64 / wall * 3600.0) as u64 } else { 0 }),
        );
        coverage.insert("faults_fired".into(), json!(self.faults));
        coverage.insert("reach_probes".into(), json!(self.probes));
        coverage.insert("counters".into(), json!(self.counters));
        coverage.insert(
            "components".into(),
            json!({
                "real": ["lexer", "parser", "macro expander", "compiler", "VM run loop", "heap", "collector", "builtins", "prelude.scm"],
                "stub": ["SystemInterface (simulated sink, clock, terminal)", "front-end driver loops (re-implemented in the harness)"]
            }),
        );
        coverage.insert("known_findings_reported".into(), json!(self.known_findings_reported));
        coverage.insert("notes".into(), json!(self.notes));
        for (k, v) in &self.extra {
            coverage.insert(k.clone(), v.clone());
        }
        let doc = json!({
            "property_id": self.property,
            "tier": self.tier.name(),
            "seed": self.seed,
            "level": self.level,
            "coverage": Value::Object(coverage),
            "assumptions": self.assumptions,
            "wall_s": wall,
            "violations": self.violations,
        });
        let dir = verif_dir().join("evidence");
        let _ = std::fs::create_dir_all(&dir);
        let path = dir.join(format!("{}.json", self.property));
        let text = serde_json::to_string_pretty(&doc).unwrap();
        std::fs::write(&path, text + "\n").expect("write evidence");
    }
}

pub fn write_replay(v: &Violation, seed: u64) -> PathBuf {
    let dir = verif_dir().join("replays");
    let _ = std::fs::create_dir_all(&dir);
    let path = dir.join(format!("{}-{}-{}.json", v.property, seed, v.run));
    let doc = json!({
        "property": v.property,
        "abort_probe": v.signature == "host process aborted",
        "oracle": v.oracle,
        "verif_seed": seed,
        "run": v.run,
        "signature": v.signature,
        "detail": v.detail,
        "case": v.case,
    });
    std::fs::write(&path, serde_json::to_string_pretty(&doc).unwrap() + "\n").expect("write replay");
    path
}

#[derive(Clone, Debug)]
pub struct KnownFinding {
    pub property: String,
    pub id: String,
    pub status: String,
    pub signature: String,
    pub canary: Option<String>,
    pub what: String,
}

pub fn load_known_findings() -> Vec<KnownFinding> {
    let path = verif_dir().join("known_findings.json");
    let text = match std::fs::read_to_string(&path) {
        Ok(t) => t,
        Err(_) => return vec![],
    };
    let doc: Value = serde_json::from_str(&text).expect("known_findings.json is not valid JSON");
    let mut out = vec![];
    if let Some(arr) = doc.get("findings").and_then(|f| f.as_array()) {
        for f in arr {
            out.push(KnownFinding {
                property: f["property"].as_str().unwrap_or("").into(),
                id: f["id"].as_str().unwrap_or("").into(),
                status: f["status"].as_str().unwrap_or("").into(),
                signature: f["signature"].as_str().unwrap_or("").into(),
                canary: f.get("canary").and_then(|c| c.as_str()).map(|s| s.to_string()),
                what: f["what"].as_str().unwrap_or("").into(),
            });
        }
    }
    out
}

/// Known (unrepaired) findings of a property: signature -> entry
pub fn known_for(property: &str) -> Vec<KnownFinding> {
    load_known_findings()
        .into_iter()
        .filter(|k| k.property == property && k.status == "known")
        .collect()
}

pub fn read_json(path: &Path) -> Result<Value, String> {
    let text = std::fs::read_to_string(path).map_err(|e| format!("{}: {}", path.display(), e))?;
    serde_json::from_str(&text).map_err(|e| format!("{}: {}", path.display(), e))
}

/// Outcome of a check run: how the process should exit.
pub struct Verdict {
    pub violations: Vec<(Violation, PathBuf)>,
    pub harness_errors: Vec<String>,
}

impl Verdict {
    pub fn exit_code(&self) -> i32 {
        // a violation that was confirmed by replaying it in a fresh process is a verdict even if
        // some other part of the run could not be evaluated (on a changed tree a canary of a
        // repaired finding may fail to set up, for instance)
        if !self.violations.is_empty() {
            1
        } else if !self.harness_errors.is_empty() {
            2
        } else {
            0
        }
    }
    pub fn print(&self) {
        for (v, path) in &self.violations {
            println!("VIOLATION property={} replay={}", v.property, path.display());
            println!("  oracle={} signature={}", v.oracle, v.signature);
            for line in v.detail.lines().take(12) {
                println!("  {}", line);
            }
        }
        for e in &self.harness_errors {
            println!("HARNESS-ERROR {}", e);
        }
    }
}
