//! Batch runner: independent simulated runs spread over worker threads, results merged in
//! run-index order so that a report never depends on the worker count.
use std::sync::atomic::{AtomicU64, Ordering};
use std::sync::Mutex;

pub fn workers() -> usize {
    std::env::var("VERIF_WORKERS")
        .ok()
        .and_then(|s| s.parse().ok())
        .unwrap_or_else(|| {
            std::thread::available_parallelism()
                .map(|n| n.get())
                .unwrap_or(4)
                .min(16)
        })
}

/// Wall-clock limit for a single run (seconds). A run of any generated workload takes seconds; a
/// run that has not returned after this long is stuck inside the library (an endless loop inside
/// one instruction cannot be stopped by the instruction cap). The process then exits with status
/// 3, which `check` treats like a host abort: it repeats the batch with crash sentinels and
/// confirms the stuck case in a fresh process.
pub static RUN_LIMIT_SECS: AtomicU64 = AtomicU64::new(300);

pub fn run_limit() -> u64 {
    std::env::var("VERIF_RUN_LIMIT_SECS")
        .ok()
        .and_then(|s| s.parse().ok())
        .unwrap_or_else(|| RUN_LIMIT_SECS.load(Ordering::Relaxed))
}

/// watchdog for a single-case process (replay): exit 3 if `f` does not return in time
pub fn with_process_watchdog<T>(secs: u64, f: impl FnOnce() -> T) -> T {
    let done = std::sync::Arc::new(std::sync::atomic::AtomicBool::new(false));
    let d2 = done.clone();
    std::thread::spawn(move || {
        let start = std::time::Instant::now();
        while start.elapsed().as_secs() < secs {
            std::thread::sleep(std::time::Duration::from_millis(500));
            if d2.load(Ordering::SeqCst) {
                return;
            }
        }
        eprintln!("NOTE: the case did not return within {} s of wall time; exiting with status 3", secs);
        std::process::exit(3);
    });
    let r = f();
    done.store(true, Ordering::SeqCst);
    r
}

pub fn par_runs<R: Send, F: Fn(u64) -> R + Sync>(n: u64, f: F) -> Vec<R> {
    // the determinism self-test runs every batch at a fraction of its size
    let n = match std::env::var("VERIF_SCALE_DIV").ok().and_then(|s| s.parse::<u64>().ok()) {
        Some(d) if d > 1 => (n / d).max(1),
        _ => n,
    };
    let next = AtomicU64::new(0);
    let results: Mutex<Vec<(u64, R)>> = Mutex::new(Vec::with_capacity(n as usize));
    let w = workers().max(1);
    // per worker: (run index + 1, start of the run in ms since the batch began); 0 = idle
    let beats: Vec<(AtomicU64, AtomicU64)> = (0..w).map(|_| (AtomicU64::new(0), AtomicU64::new(0))).collect();
    let batch_start = std::time::Instant::now();
    let live = AtomicU64::new(w as u64);
    let limit = run_limit();
    std::thread::scope(|s| {
        // the watchdog
        s.spawn(|| {
            while live.load(Ordering::SeqCst) > 0 {
                std::thread::sleep(std::time::Duration::from_millis(250));
                let now = batch_start.elapsed().as_millis() as u64;
                for (run, started) in beats.iter() {
                    let r = run.load(Ordering::SeqCst);
                    let t = started.load(Ordering::SeqCst);
                    if r > 0 && now.saturating_sub(t) > limit * 1000 {
                        eprintln!("NOTE: run {} did not return within {} s of wall time; exiting with status 3", r - 1, limit);
                        println!("NOTE: run {} did not return within {} s of wall time", r - 1, limit);
                        std::process::exit(3);
                    }
                }
            }
        });
        for wi in 0..w {
            let beats = &beats;
            let live = &live;
            let f = &f;
            let next = &next;
            let results = &results;
            // VMs recurse on the native stack in places; give workers a roomy one
            std::thread::Builder::new()
                .stack_size(256 << 20)
                .spawn_scoped(s, move || {
                    crate::kernel::install_thread_state();
                    let mut local = vec![];
                    loop {
                        let i = next.fetch_add(1, Ordering::Relaxed);
                        if i >= n {
                            break;
                        }
                        if std::env::var("VERIF_DEBUG").is_ok() {
                            eprintln!("run {}", i);
                        }
                        beats[wi].1.store(batch_start.elapsed().as_millis() as u64, Ordering::SeqCst);
                        beats[wi].0.store(i + 1, Ordering::SeqCst);
                        let r = f(i);
                        beats[wi].0.store(0, Ordering::SeqCst);
                        if std::env::var("VERIF_DEBUG").is_ok() {
                            eprintln!("done {}", i);
                        }
                        local.push((i, r));
                        if local.len() >= 64 {
                            results.lock().unwrap().append(&mut local);
                        }
                    }
                    results.lock().unwrap().append(&mut local);
                    live.fetch_sub(1, Ordering::SeqCst);
                })
                .expect("spawn worker");
        }
    });
    let mut v = results.into_inner().unwrap();
    v.sort_by_key(|(i, _)| *i);
    v.into_iter().map(|(_, r)| r).collect()
}

pub fn verif_seed() -> u64 {
    std::env::var("VERIF_SEED")
        .ok()
        .and_then(|s| s.parse().ok())
        .unwrap_or(1)
}
