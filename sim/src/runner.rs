//! Batch runner: independent simulated runs spread over worker threads, results merged in
//! run-index order so that a report never depends on the worker count.
use std::sync::atomic::{AtomicU64, Ordering};
use std::sync::Mutex;

pub fn workers() -> usize {
    std::env::var("VERIF_WORKERS")
        .ok()
        .and_then(|s| s.parse().ok())
        .unwrap_or_else(|| {
            std::thread::available_parallelism()
                .map(|n| n.get())
                .unwrap_or(4)
                .min(16)
        })
}

pub fn par_runs<R: Send, F: Fn(u64) -> R + Sync>(n: u64, f: F) -> Vec<R> {
    // the determinism self-test runs every batch at a fraction of its size
    let n = match std::env::var("VERIF_SCALE_DIV").ok().and_then(|s| s.parse::<u64>().ok()) {
        Some(d) if d > 1 => (n / d).max(1),
        _ => n,
    };
    let next = AtomicU64::new(0);
    let results: Mutex<Vec<(u64, R)>> = Mutex::new(Vec::with_capacity(n as usize));
    let w = workers().max(1);
    std::thread::scope(|s| {
        for _ in 0..w {
            // VMs recurse on the native stack in places; give workers a roomy one
            std::thread::Builder::new()
                .stack_size(256 << 20)
                .spawn_scoped(s, || {
                    crate::kernel::install_thread_state();
                    let mut local = vec![];
                    loop {
                        let i = next.fetch_add(1, Ordering::Relaxed);
                        if i >= n {
                            break;
                        }
                        if std::env::var("VERIF_DEBUG").is_ok() {
                            eprintln!("run {}", i);
                        }
                        let r = f(i);
                        if std::env::var("VERIF_DEBUG").is_ok() {
                            eprintln!("done {}", i);
                        }
                        local.push((i, r));
                        if local.len() >= 64 {
                            results.lock().unwrap().append(&mut local);
                        }
                    }
                    results.lock().unwrap().append(&mut local);
                })
                .expect("spawn worker");
        }
    });
    let mut v = results.into_inner().unwrap();
    v.sort_by_key(|(i, _)| *i);
    v.into_iter().map(|(_, r)| r).collect()
}

pub fn verif_seed() -> u64 {
    std::env::var("VERIF_SEED")
        .ok()
        .and_then(|s| s.parse().ok())
        .unwrap_or(1)
}
