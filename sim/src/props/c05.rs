//! C05 — first-class continuations: escape, re-entry and cross-evaluation invocation.
use crate::case::Case;
use crate::gen::g05;
use crate::kernel::SlicePlan;
use crate::props::c01::{make_violation, EvalOut};
use crate::props::common::random_knobs;
use crate::props::gcsearch::pick_gc_plan;
use crate::props::refcheck::{compare_session, Cmp, CmpOpts};
use crate::report::{Evidence, Tier, Violation};
use crate::rng::{fnv64, mix, Rng};
use crate::runner::par_runs;
use serde_json::{json, Value};
use std::collections::HashSet;

struct RunResult {
    evals: u64,
    violation: Option<Violation>,
    nontrivial: bool,
    key: u64,
    discarded: Option<String>,
    instrs: u64,
    reentries: u64,
    invocations: u64,
    templates: Vec<&'static str>,
    sample: Option<Value>,
    composed_gc: bool,
    composed_slices: bool,
}

fn one_run(seed: u64, run: u64) -> RunResult {
    let mut rng = Rng::new(mix(seed, "C05", run));
    let knobs = random_knobs(&mut rng);
    let mut wl = rng.fork();
    let g = g05::session(&mut wl);
    let forms = g.forms;
    let text: Vec<String> = forms.iter().map(|f| f.text()).collect();
    let mut case = Case::new(vec![]);
    case.knobs = knobs;
    case.sched_seed = rng.next_u64();
    let mut composed_gc = false;
    let mut composed_slices = false;
    if rng.chance(1, 2) {
        let (plan, _) = pick_gc_plan(&mut rng, 3000);
        case.gc = plan;
        case.between_forms_gc = rng.chance(1, 2);
        composed_gc = true;
    }
    if rng.chance(1, 3) {
        case.slices = if rng.chance(1, 2) { SlicePlan::Random(1, 40) } else { SlicePlan::Constant(rng.range(1, 16) as usize) };
        composed_slices = true;
    }
    let mut res = RunResult {
        evals: 1,
        violation: None,
        nontrivial: false,
        key: fnv64(text.join("\n").as_bytes()),
        discarded: None,
        instrs: 0,
        reentries: 0,
        invocations: 0,
        templates: g.templates,
        sample: None,
        composed_gc,
        composed_slices,
    };
    let judged = vec![true; forms.len()];
    match compare_session(&forms, &judged, &case, &CmpOpts::default()) {
        Cmp::Ok(ok) => {
            res.instrs = ok.instrs;
            res.reentries = ok.reentries;
            res.invocations = ok.cont_invocations;
            res.nontrivial = ok.reentries > 0;
            res.discarded = ok.discarded_at.map(|(_, w)| w);
            if run < 3 {
                res.sample = Some(json!({"session": text, "reentries": ok.reentries}));
            }
        }
        Cmp::Discarded(w) => res.discarded = Some(w.to_string()),
        Cmp::Violation(v) => {
            // the fresh-VM twin is also part of the replayed oracle
            let _ = EvalOut::Discarded("");
            res.violation = Some(make_violation("C05", run, &forms, &case, v.class, v.detail, false));
        }
    }
    res
}

pub fn run(tier: Tier, seed: u64, ev: &mut Evidence) -> Vec<Violation> {
    let n = match tier {
        Tier::Quick => 12_000u64,
        Tier::Thorough => 300_000u64,
    };
    ev.rule = "G05 sessions of 1-4 continuation templates (early exit, re-entry from later top-level forms, operand position with effectful \
               operands on both sides, capture in a tail call, receiver returning normally, mutation of variables and pairs between capture \
               and re-entry, capture inside map / for-each callbacks, named-let escape, nested call/cc, invocation inside another continuation's \
               extent, escape from deep recursion, re-entry from a loop), k stored in a global / vector / pair / closure / list, 0-3 re-entries \
               bounded by counters; oracle: reference CEK machine form by form; composed: collection schedules (continuation objects are kept \
               alive only by the marker) and slicing. distinct = session hash; non-trivial = a continuation was invoked outside its extent"
        .into();
    let results = par_runs(n, |i| one_run(seed, i));
    let mut distinct = HashSet::new();
    let mut violations = vec![];
    for r in results {
        ev.evaluations += r.evals;
        ev.count("simulated_instructions", r.instrs);
        ev.probe("continuation_invoked_outside_its_extent", r.reentries);
        ev.count("continuation_invocations", r.invocations);
        if r.composed_gc {
            ev.count("runs_with_collection_schedule", 1);
        }
        if r.composed_slices {
            ev.count("runs_sliced", 1);
        }
        for t in &r.templates {
            ev.count(&format!("template_{}", t), 1);
        }
        if let Some(d) = r.discarded {
            ev.count("discarded", 1);
            ev.count(&format!("discard_reason: {}", d), 1);
        }
        if r.nontrivial && r.violation.is_none() {
            distinct.insert(r.key);
        }
        if let Some(s) = r.sample {
            if ev.samples.len() < 3 {
                ev.samples.push(s);
            }
        }
        if let Some(v) = r.violation {
            violations.push(v);
        }
    }
    ev.distinct_nontrivial = distinct.len() as u64;
    violations
}

pub fn replay(case: &Value) -> Result<Option<Violation>, String> {
    crate::props::c01::replay_as("C05", case)
}

pub fn rerun(_tier: Tier, seed: u64, run: u64) -> Option<Violation> {
    one_run(seed, run).violation
}
