//! C19 — depth is limited by memory, not by the host's native stack (DESIGN §5 C19).
//! The injected resource fault is the native stack the embedder gives the VM: every grid cell
//! (structure direction x operation x depth x thread x build profile) runs in an isolated worker
//! process; the oracle is the worker's exit status.
use crate::report::{known_for, Evidence, Tier, Violation};
use crate::rng::{mix, Rng};
use crate::runner::par_runs;
use marwood::vm::Vm;
use serde_json::{json, Value};
use std::collections::BTreeMap;
use std::path::PathBuf;
use std::process::{Command, Stdio};
use std::time::{Duration, Instant};

pub const DIRECTIONS: [&str; 5] = ["car-nest", "cdr-nest", "alist", "vector-nest", "quote-chain"];
pub const DATA_OPS: [&str; 10] = ["read", "quote-evaluate", "build", "build-sliced", "collect", "equal", "write", "drop", "sweep-dead", "sweep-dead-copied"];
pub const OTHER: [&str; 8] = [
    "closure-chain/build",
    "closure-chain/collect",
    "closure-chain/walk",
    "continuation-chain/build",
    "continuation-chain/collect",
    "recursion/run",
    "nested-expression/read",
    "nested-expression/evaluate",
];
pub const DEPTHS: [u64; 3] = [1_000, 10_000, 100_000];
pub const THREADS: [&str; 2] = ["main", "thread2m"];
pub const BUILDS: [&str; 2] = ["release", "debug"];

pub fn scenarios() -> Vec<String> {
    let mut v = vec![];
    for d in DIRECTIONS {
        for o in DATA_OPS {
            // reclaiming a dead structure is exercised on the list directions, whose construction
            // does not already run into the (known) recursion of the marker
            if o.starts_with("sweep-dead") && !matches!(d, "cdr-nest" | "alist") {
                continue;
            }
            v.push(format!("{}/{}", d, o));
        }
    }
    for o in OTHER {
        v.push(o.to_string());
    }
    v
}

#[derive(Clone, Debug, PartialEq, Eq, PartialOrd, Ord)]
pub struct Cell {
    pub scenario: String,
    pub depth: u64,
    pub thread: String,
    pub build: String,
}

impl Cell {
    pub fn id(&self) -> String {
        format!("{}/{}/{}/{}", self.scenario, self.depth, self.thread, self.build)
    }
    pub fn to_json(&self) -> Value {
        json!({"scenario": self.scenario, "depth": self.depth, "thread": self.thread, "build": self.build})
    }
    pub fn from_json(v: &Value) -> Option<Cell> {
        Some(Cell {
            scenario: v["scenario"].as_str()?.to_string(),
            depth: v["depth"].as_u64()?,
            thread: v["thread"].as_str()?.to_string(),
            build: v["build"].as_str()?.to_string(),
        })
    }
}

pub fn grid() -> Vec<Cell> {
    let mut v = vec![];
    for s in scenarios() {
        for d in DEPTHS {
            for t in THREADS {
                for b in BUILDS {
                    v.push(Cell {
                        scenario: s.clone(),
                        depth: d,
                        thread: t.to_string(),
                        build: b.to_string(),
                    });
                }
            }
        }
    }
    v
}

// ---------------------------------------------------------------------------
// worker
// ---------------------------------------------------------------------------

fn datum_text(direction: &str, n: usize) -> String {
    match direction {
        "car-nest" => format!("{}{}", "(".repeat(n), ")".repeat(n)),
        "cdr-nest" => format!("({})", "1 ".repeat(n)),
        "alist" => format!("({})", "(1 . 2) ".repeat(n)),
        "vector-nest" => format!("{}{}", "#(".repeat(n), ")".repeat(n)),
        "quote-chain" => format!("{}a", "'".repeat(n)),
        _ => "()".into(),
    }
}

fn build_program(direction: &str, name: &str, n: usize) -> Vec<String> {
    let step = match direction {
        "car-nest" => "(list acc)",
        "cdr-nest" => "(cons 1 acc)",
        "alist" => "(cons (cons n n) acc)",
        "vector-nest" => "(vector acc)",
        "quote-chain" => "(list 'quote acc)",
        _ => "acc",
    };
    vec![
        format!("(define (%nest-{d} n acc) (if (= n 0) acc (%nest-{d} (- n 1) {step})))", d = name, step = step),
        format!("(define {} (%nest-{} {} '()))", name, name, n),
    ]
}

fn run_forms(vm: &mut Vm, forms: &[String]) -> Result<(), String> {
    for f in forms {
        vm.eval_text(f).map_err(|e| format!("{:?}", e).chars().take(80).collect::<String>())?;
    }
    Ok(())
}

/// returns Ok("completed") or Ok("error-returned: ..")
fn scenario_body(scenario: &str, n: usize) -> String {
    let mut parts = scenario.splitn(2, '/');
    let direction = parts.next().unwrap_or("");
    let op = parts.next().unwrap_or("");
    let mut vm = Vm::new();
    let result: Result<(), String> = (|| {
        match (direction, op) {
            ("closure-chain", _) => {
                run_forms(
                    &mut vm,
                    &[
                        "(define (%chain n f) (if (= n 0) f (%chain (- n 1) (lambda () f))))".into(),
                        format!("(define %c (%chain {} #f))", n),
                    ],
                )?;
                match op {
                    "collect" => vm.verif_collect(),
                    "walk" => run_forms(&mut vm, &["(define (%walk f k) (if (procedure? f) (%walk (f) (+ k 1)) k))".into(), "(%walk %c 0)".into()])?,
                    _ => {}
                }
                Ok(())
            }
            ("continuation-chain", _) => {
                run_forms(
                    &mut vm,
                    &[
                        "(define (%kchain n acc) (if (= n 0) acc (%kchain (- n 1) (call/cc (lambda (k) (cons k acc))))))".into(),
                        format!("(define %ks (%kchain {} '()))", n),
                    ],
                )?;
                if op == "collect" {
                    vm.verif_collect();
                }
                Ok(())
            }
            ("recursion", _) => run_forms(
                &mut vm,
                &["(define (%r n) (if (= n 0) 0 (+ 1 (%r (- n 1)))))".into(), format!("(%r {})", n)],
            ),
            ("nested-expression", _) => {
                let text = format!("{}0{}", "(+ 1 ".repeat(n), ")".repeat(n));
                match op {
                    "read" => {
                        let r = marwood::parse::parse_text(&text).map_err(|e| format!("{:?}", e))?;
                        std::mem::forget(r);
                        Ok(())
                    }
                    _ => {
                        let r = vm.eval_text(&text).map_err(|e| format!("{:?}", e).chars().take(80).collect::<String>())?;
                        std::mem::forget(r);
                        Ok(())
                    }
                }
            }
            (d, "read") => {
                let text = datum_text(d, n);
                let r = marwood::parse::parse_text(&text).map_err(|e| format!("{:?}", e))?;
                std::mem::forget(r);
                Ok(())
            }
            (d, "quote-evaluate") => {
                let text = format!("'{}", datum_text(d, n));
                let r = vm.eval_text(&text).map_err(|e| format!("{:?}", e).chars().take(80).collect::<String>())?;
                std::mem::forget(r);
                Ok(())
            }
            (d, "build") => run_forms(&mut vm, &build_program(d, "d1", n)),
            (d, "build-sliced") => {
                // the same through the stepping API, as the browser front end drives the VM:
                // slices of 997 instructions, then a walk over the structure in slices of 1
                let mut forms = build_program(d, "d1", n);
                forms.push("(define (%walk-d x k) (if (pair? x) (%walk-d (cdr x) (+ k 1)) k))".into());
                forms.push("(%walk-d d1 0)".into());
                for (i, f) in forms.iter().enumerate() {
                    let (cell, _) = marwood::parse::parse_text(f).map_err(|e| format!("{:?}", e))?;
                    vm.prepare_eval(&cell).map_err(|e| format!("{:?}", e).chars().take(80).collect::<String>())?;
                    let budget = if i + 1 == forms.len() { 101 } else { 997 };
                    let mut guard = 0u64;
                    loop {
                        match vm.run_count(budget) {
                            Ok(Some(r)) => {
                                std::mem::forget(r);
                                break;
                            }
                            Ok(None) => {}
                            Err(e) => return Err(format!("{:?}", e).chars().take(80).collect::<String>()),
                        }
                        guard += 1;
                        if guard > 50_000_000 {
                            return Err("no progress".into());
                        }
                    }
                }
                Ok(())
            }
            (d, "collect") => {
                run_forms(&mut vm, &build_program(d, "d1", n))?;
                vm.verif_collect();
                // still usable afterwards
                run_forms(&mut vm, &["(pair? d1)".into()])
            }
            (d, "sweep-dead") | (d, "sweep-dead-copied") => {
                // the structure becomes garbage and is reclaimed by the collector: once as the
                // builder left it, once after the heap has been churned and the structure copied
                // (other allocation order, the heap has grown before)
                run_forms(&mut vm, &build_program(d, "d1", n))?;
                if op == "sweep-dead-copied" {
                    run_forms(
                        &mut vm,
                        &[
                            "(define (%copy x) (cond ((pair? x) (reverse (reverse x))) ((vector? x) (vector-copy x)) (else x)))".into(),
                            "(define d1 (%copy d1))".into(),
                        ],
                    )?;
                }
                // (no collection while the structure is live: that is the `collect` operation)
                run_forms(&mut vm, &["(define d1 'gone)".into()])?;
                vm.verif_collect();
                vm.verif_collect();
                // still usable afterwards
                run_forms(&mut vm, &build_program(d, "d3", 10))?;
                run_forms(&mut vm, &["(pair? d3)".into()])
            }
            (d, "equal") => {
                run_forms(&mut vm, &build_program(d, "d1", n))?;
                run_forms(&mut vm, &build_program(d, "d2", n))?;
                run_forms(&mut vm, &["(equal? d1 d2)".into()])
            }
            (d, "write") => {
                run_forms(&mut vm, &build_program(d, "d1", n))?;
                let (cell, _) = vm.eval_text("d1").map_err(|e| format!("{:?}", e).chars().take(80).collect::<String>())?;
                let text = format!("{:#}", cell);
                std::mem::forget(cell);
                if text.is_empty() {
                    return Err("empty rendering".into());
                }
                Ok(())
            }
            (d, "drop") => {
                run_forms(&mut vm, &build_program(d, "d1", n))?;
                let (cell, _) = vm.eval_text("d1").map_err(|e| format!("{:?}", e).chars().take(80).collect::<String>())?;
                drop(cell);
                Ok(())
            }
            _ => Err(format!("unknown scenario {}", scenario)),
        }
    })();
    // the VM (heap of Rc'd code and vectors) is dropped here as part of every scenario
    drop(vm);
    match result {
        Ok(()) => "completed".into(),
        Err(e) => format!("error-returned: {}", e),
    }
}

/// entry point of the isolated worker process. Exit 0: completed or returned an error; exit 3: panic.
pub fn worker_main(args: &[String]) -> i32 {
    let scenario = args.first().cloned().unwrap_or_default();
    let depth: usize = args.get(1).and_then(|s| s.parse().ok()).unwrap_or(1000);
    let thread = args.get(2).cloned().unwrap_or_else(|| "main".into());
    let run = move || -> i32 {
        match std::panic::catch_unwind(|| scenario_body(&scenario, depth)) {
            Ok(s) => {
                println!("{}", s);
                0
            }
            Err(_) => {
                println!("panic: {}", crate::kernel::last_panic());
                3
            }
        }
    };
    if thread == "thread2m" {
        // the default stack size of a spawned Rust thread
        let h = std::thread::Builder::new().stack_size(2 * 1024 * 1024).spawn(run).expect("spawn");
        h.join().unwrap_or(3)
    } else {
        run()
    }
}

// ---------------------------------------------------------------------------
// driver
// ---------------------------------------------------------------------------

fn worker_exe(build: &str) -> PathBuf {
    let exe = std::env::current_exe().expect("current_exe");
    if build == "debug" {
        // <sim>/target/release/marsim -> <sim>/target/debug/marsim
        let target = exe.parent().and_then(|p| p.parent()).expect("target dir");
        target.join("debug").join("marsim")
    } else {
        exe
    }
}

#[derive(Clone, Debug, PartialEq)]
pub enum CellOutcome {
    Completed,
    ErrorReturned,
    Panic(String),
    Aborted(String),
    Timeout,
    Missing(String),
}

pub fn run_cell(c: &Cell) -> CellOutcome {
    run_cell_padded(c, 0)
}

/// `pad`: bytes of extra environment, which shift where the main thread's stack begins
pub fn run_cell_padded(c: &Cell, pad: usize) -> CellOutcome {
    let exe = worker_exe(&c.build);
    if !exe.exists() {
        return CellOutcome::Missing(format!("{} not built", exe.display()));
    }
    let mut child = match Command::new(&exe)
        .arg("c19-worker")
        .arg(&c.scenario)
        .arg(c.depth.to_string())
        .arg(&c.thread)
        .env("C19_PAD", "x".repeat(pad))
        .stdout(Stdio::piped())
        .stderr(Stdio::null())
        .spawn()
    {
        Ok(ch) => ch,
        Err(e) => return CellOutcome::Missing(e.to_string()),
    };
    let start = Instant::now();
    loop {
        match child.try_wait() {
            Ok(Some(status)) => {
                let mut out = String::new();
                if let Some(mut so) = child.stdout.take() {
                    use std::io::Read;
                    let _ = so.read_to_string(&mut out);
                }
                return match status.code() {
                    Some(0) => {
                        if out.starts_with("error-returned") {
                            CellOutcome::ErrorReturned
                        } else {
                            CellOutcome::Completed
                        }
                    }
                    Some(3) => CellOutcome::Panic(out.trim().chars().take(120).collect()),
                    Some(code) => CellOutcome::Aborted(format!("exit status {}", code)),
                    None => {
                        #[cfg(unix)]
                        {
                            use std::os::unix::process::ExitStatusExt;
                            CellOutcome::Aborted(format!("signal {}", status.signal().unwrap_or(0)))
                        }
                        #[cfg(not(unix))]
                        {
                            CellOutcome::Aborted("killed".into())
                        }
                    }
                };
            }
            Ok(None) => {
                if start.elapsed() > Duration::from_secs(120) {
                    let _ = child.kill();
                    let _ = child.wait();
                    return CellOutcome::Timeout;
                }
                std::thread::sleep(Duration::from_millis(5));
            }
            Err(e) => return CellOutcome::Missing(e.to_string()),
        }
    }
}

fn signature(c: &Cell, o: &CellOutcome) -> String {
    let class = match o {
        CellOutcome::Panic(_) => "panic",
        _ => "abort",
    };
    format!("C19 {} {}", class, c.id())
}

pub fn run(tier: Tier, seed: u64, ev: &mut Evidence) -> Vec<Violation> {
    let unstable = unstable_cells();
    let all: Vec<Cell> = grid().into_iter().filter(|c| !unstable.contains(&c.id())).collect();
    ev.extra.insert("unstable_cells_excluded".into(), json!(unstable));
    // the known aborting cells are always run (they are the canaries of the known findings)
    let known: Vec<String> = known_for("C19").iter().map(|k| k.signature.clone()).collect();
    let mut chosen: Vec<Cell> = match tier {
        Tier::Thorough => all.clone(),
        Tier::Quick => {
            let mut rng = Rng::new(mix(seed, "C19", 0));
            let mut idx: Vec<usize> = (0..all.len()).collect();
            rng.shuffle(&mut idx);
            idx.truncate(160);
            idx.sort();
            idx.into_iter().map(|i| all[i].clone()).collect()
        }
    };
    for c in &all {
        let is_known = known.iter().any(|k| k.ends_with(&c.id()));
        if is_known && !chosen.contains(c) {
            chosen.push(c.clone());
        }
    }
    chosen.sort();
    ev.rule = "grid {car-nest, cdr-nest, alist (a long list whose elements are pairs), vector-nest, quote-chain} x {read, quote-evaluate, build at run time, build and walk through the stepping API in \
               slices, keep live across a forced collection, equal?, write, drop} + closure chains (build, collect, walk) + continuation chains (build, collect) + non-tail \
               recursion + nested expressions (read, evaluate), x depth {10^3,10^4,10^5} x {main thread, 2 MiB thread} x {release, debug}; each \
               cell runs in an isolated worker process and passes if the worker completes or returns an error; quick = seeded sample of 160 cells \
               plus every cell listed as a known finding, thorough = the whole grid. distinct = cell id; non-trivial = depth >= 10^4"
        .into();
    let results = par_runs(chosen.len() as u64, |i| run_cell(&chosen[i as usize]));
    let mut violations = vec![];
    let mut outcome_counts: BTreeMap<&'static str, u64> = BTreeMap::new();
    let mut nontrivial = 0u64;
    for (ci, (c, o)) in chosen.iter().zip(results.iter()).enumerate() {
        if std::env::var("VERIF_C19_LIST").is_ok() {
            eprintln!("CELL {} {:?}", c.id(), o);
        }
        ev.evaluations += 1;
        ev.fault(&format!("stack_budget_{}", c.thread), 1);
        let key = match o {
            CellOutcome::Completed => "completed",
            CellOutcome::ErrorReturned => "error_returned",
            CellOutcome::Panic(_) => "panic",
            CellOutcome::Aborted(_) => "aborted",
            CellOutcome::Timeout => "timeout",
            CellOutcome::Missing(_) => "worker_missing",
        };
        *outcome_counts.entry(key).or_insert(0) += 1;
        if c.depth >= 10_000 {
            nontrivial += 1;
        }
        match o {
            CellOutcome::Aborted(how) | CellOutcome::Panic(how) => {
                violations.push(Violation {
                    property: "C19".into(),
                    oracle: "worker exit status".into(),
                    signature: signature(c, o),
                    run: ci as u64,
                    case: json!({"cell": c.to_json()}),
                    detail: format!("cell {}: the worker process {} ({})", c.id(), if matches!(o, CellOutcome::Panic(_)) { "panicked" } else { "was aborted" }, how),
                });
            }
            CellOutcome::Missing(why) => {
                if ev.notes.len() < 3 {
                    ev.notes.push(format!("worker missing: {}", why));
                }
            }
            CellOutcome::Timeout => {
                if ev.notes.len() < 6 {
                    ev.notes.push(format!("cell {} exceeded the 120 s watchdog (not judged)", c.id()));
                }
            }
            _ => {}
        }
        if ev.samples.len() < 4 && c.depth == 100_000 {
            ev.samples.push(json!({"cell": c.id(), "outcome": key}));
        }
    }
    ev.distinct_nontrivial = nontrivial;
    for (k, v) in outcome_counts {
        ev.count(&format!("cells_{}", k), v);
    }
    ev.extra.insert("grid_cells_total".into(), json!(all.len()));
    ev.extra.insert("cells_run".into(), json!(chosen.len()));
    ev.exhaustive = Some(tier == Tier::Thorough);
    ev.assumptions.push("a wall-clock watchdog of 120 s per worker turns a hang into a note, never into a VIOLATION".into());
    violations
}

pub fn replay(case: &Value) -> Result<Option<Violation>, String> {
    let c = Cell::from_json(&case["cell"]).ok_or("cell missing")?;
    let o = run_cell(&c);
    Ok(match &o {
        CellOutcome::Aborted(how) | CellOutcome::Panic(how) => Some(Violation {
            property: "C19".into(),
            oracle: "worker exit status".into(),
            signature: signature(&c, &o),
            run: 0,
            case: case.clone(),
            detail: format!("cell {}: worker {}", c.id(), how),
        }),
        CellOutcome::Missing(why) => return Err(why.clone()),
        _ => None,
    })
}

/// Survey of the whole grid under three environment sizes: cells whose outcome flips are unstable
/// (too close to the stack limit to be judged reproducibly) and are excluded from the grid.
pub fn survey() {
    let all = grid();
    let pads = [0usize, 3000, 40_000];
    let results = par_runs(all.len() as u64, |i| {
        let c = &all[i as usize];
        pads.iter().map(|p| run_cell_padded(c, *p)).collect::<Vec<_>>()
    });
    let mut aborts = vec![];
    let mut unstable = vec![];
    for (c, outs) in all.iter().zip(results.iter()) {
        let bad: Vec<bool> = outs.iter().map(|o| matches!(o, CellOutcome::Aborted(_) | CellOutcome::Panic(_))).collect();
        if bad.iter().all(|b| *b) {
            aborts.push(c.id());
        } else if bad.iter().any(|b| *b) {
            unstable.push(c.id());
        }
    }
    println!("{}", serde_json::to_string_pretty(&json!({"stable_aborts": aborts, "unstable": unstable})).unwrap());
}

pub fn unstable_cells() -> Vec<String> {
    let path = crate::report::verif_dir().join("c19_unstable_cells.json");
    match crate::report::read_json(&path) {
        Ok(v) => v["unstable"].as_array().map(|a| a.iter().filter_map(|x| x.as_str().map(|s| s.to_string())).collect()).unwrap_or_default(),
        Err(_) => vec![],
    }
}
