//! C07 — a failed evaluation leaves no trace beyond its completed effects (DESIGN §5 C07).
//! Fault enumeration: a failure of each kind is injected at every expression position of a
//! chosen form in turn; bursts of k consecutive failures at call depth d.
use crate::case::Case;
use crate::gen::faults::*;
use crate::gen::g01::Options;
use crate::gen::g05;
use crate::kernel::{GcPlan, Knobs, Obs, Outcome, Sim, SlicePlan};
use crate::props::common::*;
use crate::props::gcsearch::pick_gc_plan;
use crate::props::refcheck::*;
use crate::refscheme::machine::RefOutcome;
use crate::report::{Evidence, Tier, Violation};
use crate::rng::{fnv64, mix, Rng};
use crate::runner::par_runs;
use crate::sx::{read_all, read_one, Sx};
use marwood::vm::verif::GcMode;
use serde_json::{json, Value};
use std::collections::{BTreeMap, HashSet};

fn setup_forms() -> Vec<Sx> {
    read_all(
        "(define %abort-k #f)
         (define (%probe a) (+ 1 (car a)))
         (define (%probe-deep n a) (if (= n 0) (%probe a) (+ 1 (%probe-deep (- n 1) a))))
         (define %fault-vec (vector 'v0 'v1 'v2))
         (define %fault-str (make-string 3 #\\s))",
    )
    .unwrap()
}

fn abort_call() -> Sx {
    read_one("(%abort-k 'aborted)").unwrap()
}

fn escape_variant(twin_form: &Sx) -> Sx {
    // (define x INIT) / (set! x E): only the init expression is evaluated; the binding effect of a
    // failed definition never completed
    let body = match twin_form {
        Sx::List(v) if v.len() == 3 && (v[0].is_sym("define") || v[0].is_sym("set!")) && matches!(v[1], Sx::Sym(_)) => v[2].clone(),
        other => other.clone(),
    };
    Sx::List(vec![
        Sx::Sym("call/cc".into()),
        Sx::List(vec![
            Sx::Sym("lambda".into()),
            Sx::List(vec![Sx::Sym("%k".into())]),
            Sx::List(vec![Sx::Sym("set!".into()), Sx::Sym("%abort-k".into()), Sx::Sym("%k".into())]),
            body,
        ]),
    ])
}

/// the three renderings of a faulted session
#[derive(Clone)]
pub struct Faulted {
    pub ref_forms: Vec<Sx>,
    pub vm_texts: Vec<String>,
    /// fault site replaced by the abort call (not yet wrapped)
    pub twin_forms: Vec<Sx>,
    pub kind: FaultKind,
}

pub fn inject(base: &[Sx], target: usize, path: &[usize], kind: FaultKind, n: u64) -> Faulted {
    let mut ref_forms = base.to_vec();
    let mut vm_forms = base.to_vec();
    let mut twin_forms = base.to_vec();
    ref_forms[target] = replace_at(&base[target], path, &ref_expr(kind, n));
    vm_forms[target] = replace_at(&base[target], path, &kind.vm_expr(n));
    twin_forms[target] = replace_at(&base[target], path, &abort_call());
    Faulted {
        ref_forms,
        vm_texts: vm_forms.iter().map(vm_text).collect(),
        twin_forms,
        kind,
    }
}

fn is_injected(o: &RefOutcome) -> bool {
    match o {
        RefOutcome::Error("injected", _) => true,
        RefOutcome::Error("user", Some(p)) => matches!(p.first(), Some(crate::kernel::Dv::Str(s)) if s.starts_with("boom-")),
        RefOutcome::Error("syntax", _) => true,
        _ => false,
    }
}

pub enum EvalOut {
    Ok { injected_failures: usize, later_forms_checked: usize, traces_compared: usize, instrs: u64, effects_before_failure: bool },
    Discarded(String),
    Violation { class: String, detail: String },
}

fn trace_str(o: &Obs) -> String {
    match &o.trace {
        None => "none".into(),
        Some(f) => format!("{} frames {:?}", f.len(), f),
    }
}

pub fn evaluate(f: &Faulted, case: &Case) -> EvalOut {
    let judged = vec![true; f.ref_forms.len()];
    let opts = CmpOpts {
        keep_run: true,
        ..Default::default()
    };
    let ok = match compare_session_texts(&f.ref_forms, Some(&f.vm_texts), &judged, case, &opts) {
        Cmp::Discarded(w) => return EvalOut::Discarded(w.to_string()),
        Cmp::Violation(v) => {
            return EvalOut::Violation {
                class: format!("reference {}", v.class),
                detail: v.detail,
            }
        }
        Cmp::Ok(ok) => ok,
    };
    if let Some((_, why)) = &ok.discarded_at {
        if ok.compared == 0 {
            return EvalOut::Discarded(why.clone());
        }
    }
    let run = ok.run.as_ref().unwrap();
    let n = ok.compared;
    // monitor: the stack pointer is back at its base after every form
    for (i, o) in run.obs.iter().enumerate().take(n) {
        if !matches!(o.outcome, Outcome::Diverged | Outcome::Panic(_)) && o.sp_after != 0 {
            return EvalOut::Violation {
                class: "stack-pointer-not-at-rest".into(),
                detail: format!(
                    "after form {} ({}) which ended with {}, the stack pointer is {} instead of 0",
                    i,
                    f.vm_texts[i],
                    o.outcome.brief(),
                    o.sp_after
                ),
            };
        }
    }
    // never-failed twin
    let injected: Vec<usize> = (0..n).filter(|i| is_injected(&ok.ref_outcomes[*i])).collect();
    if injected.is_empty() {
        return EvalOut::Ok {
            injected_failures: 0,
            later_forms_checked: 0,
            traces_compared: 0,
            instrs: ok.instrs,
            effects_before_failure: false,
        };
    }
    // every injected failing form becomes its escape variant; the trace comparison comes from the
    // forms that fail in both VMs for reasons of their own (the probe at the end of each session)
    let mut twin_texts = vec![];
    let mut skip_outcome = vec![false; n];
    for i in 0..n {
        if injected.contains(&i) {
            skip_outcome[i] = true;
            match &ok.ref_outcomes[i] {
                RefOutcome::Error("syntax", _) => twin_texts.push("'omitted".to_string()),
                _ => twin_texts.push(escape_variant(&f.twin_forms[i]).text()),
            }
        } else {
            twin_texts.push(f.vm_texts[i].clone());
        }
    }
    let mut twin_case = Case::new(twin_texts);
    twin_case.knobs = case.knobs.clone();
    let twin = run_case(
        &twin_case,
        &RunOpts {
            mode: GcMode::Normal,
            cap: 400_000,
            ..Default::default()
        },
    );
    let first = injected[0];
    let mut later = 0;
    let mut traces = 0;
    for i in first..n {
        let a = &run.obs[i];
        let b = &twin.obs[i];
        if matches!(b.outcome, Outcome::Diverged | Outcome::Panic(_)) {
            return EvalOut::Discarded("twin did not complete".into());
        }
        if skip_outcome[i] {
            // the escape variant performs the same completed effects: same output
            if a.output != b.output {
                return EvalOut::Violation {
                    class: "twin output-of-failing-form".into(),
                    detail: format!("form {}: {}\n  failed VM output {:?}\n  escape variant output {:?}", i, f.vm_texts[i], a.output, b.output),
                };
            }
            continue;
        }
        later += 1;
        if !a.same_result(b) {
            return EvalOut::Violation {
                class: "twin later-form-result".into(),
                detail: format!(
                    "form {}: {}\n  VM that saw {} failure(s): {}\n  VM that never failed:    {}",
                    i,
                    f.vm_texts[i],
                    injected.iter().filter(|j| **j < i).count(),
                    a.outcome.brief(),
                    b.outcome.brief()
                ),
            };
        }
        if a.trace != b.trace {
            return EvalOut::Violation {
                class: "twin stack-trace".into(),
                detail: format!(
                    "form {}: {}\n  VM that saw {} earlier failure(s): trace {}\n  VM that never failed:           trace {}",
                    i,
                    f.vm_texts[i],
                    injected.iter().filter(|j| **j < i).count(),
                    trace_str(a),
                    trace_str(b)
                ),
            };
        }
        if a.trace.is_some() {
            traces += 1;
        }
    }
    // did the first failing form complete an observable effect before failing?
    let effects = !run.obs[first].output.is_empty();
    EvalOut::Ok {
        injected_failures: injected.len(),
        later_forms_checked: later,
        traces_compared: traces,
        instrs: ok.instrs,
        effects_before_failure: effects,
    }
}

// ---------------------------------------------------------------------------
// bursts of consecutive failures
// ---------------------------------------------------------------------------

#[derive(Clone, Debug)]
pub struct Burst {
    pub k: u64,
    pub depth: u64,
    pub kind: FaultKind,
    pub knobs: Knobs,
}

#[derive(Debug, Clone, PartialEq)]
struct BurstObs {
    /// heap capacity as the failures left it (no collection forced by the harness)
    heap_capacity: usize,
    stack_capacity: usize,
    used_after_collection: usize,
    probe_outcome: Outcome,
    probe_trace: Option<Vec<String>>,
    sp_at_rest_violations: usize,
    later_value: Outcome,
}

fn run_burst(b: &Burst, k: u64) -> Result<BurstObs, String> {
    let mut sim = Sim::new(&b.knobs, GcPlan::None, SlicePlan::None, 1);
    sim.set_gc_mode(GcMode::Normal);
    for f in setup_forms() {
        sim.eval_form(&f.text());
    }
    let fault = vm_text(&b.kind.vm_expr(7));
    let dive = format!("(define (%dive n) (if (= n 0) {} (+ 1 (%dive (- n 1)))))", fault);
    let o = sim.eval_form(&dive);
    let compile_time = matches!(b.kind, FaultKind::CompileSyntax | FaultKind::ReadSyntax | FaultKind::MacroSyntax);
    if !compile_time && !matches!(o.outcome, Outcome::Value(_)) {
        return Err(format!("set-up failed: {}", o.outcome.brief()));
    }
    sim.eval_form("(define %counter 0)");
    let mut bad_sp = 0;
    for _ in 0..k {
        let o = if compile_time {
            // the failing form itself is rejected at read/compile time
            sim.eval_form(&format!("(begin (set! %counter (+ %counter 1)) '(g 1 2 3 4 5 6 7 8 9 10 11 12 \"garbage\") {})", fault))
        } else {
            sim.eval_form(&format!("(begin (set! %counter (+ %counter 1)) (vector '(g 1 2 3 4 5 6 7 8 9 10 11 12) (make-vector 8 %counter)) (%dive {}))", b.depth))
        };
        if !o.outcome.is_error() {
            return Err(format!("the injected failure did not fail: {}", o.outcome.brief()));
        }
        if o.sp_after != 0 {
            bad_sp += 1;
        }
    }
    // a later form that uses every derived form of the prelude, procedures, promises and templates
    let later = sim.eval_form(
        "(list 'after (%probe (list 41)) %fault-vec %fault-str \
           (let ((a 1)) (let* ((b a)) (letrec ((c (lambda () b))) \
             (cond ((= a 2) 'no) (else (case b ((1) (when #t (unless #f (and a (or #f (c)))))) (else 'no))))))) \
           (let loop ((i 0)) (if (< i 3) (loop (+ i 1)) i)) \
           `(q ,(force (delay 5)) . ,(apply + '(1 2))) \
           (map (lambda (x) (* x x)) '(1 2 3)) \
           (call/cc (lambda (k) (for-each (lambda (x) (if (> x 1) (k x))) '(1 2 3)) 'none)))",
    );
    let probe = sim.eval_form("(%probe-deep 2 5)");
    let stack_capacity = sim.vm.verif_stack().len();
    let heap_capacity = sim.vm.verif_heap().capacity();
    sim.vm.verif_collect();
    let used = sim.vm.verif_heap().used_size();
    Ok(BurstObs {
        heap_capacity,
        stack_capacity,
        used_after_collection: used,
        probe_outcome: probe.outcome,
        probe_trace: probe.trace,
        sp_at_rest_violations: bad_sp,
        later_value: later.outcome,
    })
}

pub fn evaluate_burst(b: &Burst) -> Result<Option<(String, String)>, String> {
    let base = run_burst(b, 0)?;
    let few = run_burst(b, 10.min(b.k))?;
    let many = run_burst(b, b.k)?;
    let desc = format!("k={} consecutive {} failures at call depth {}", b.k, b.kind.name(), b.depth);
    if many.sp_at_rest_violations > 0 {
        return Ok(Some((
            "C07 burst stack-pointer-not-at-rest".into(),
            format!("{}: the stack pointer was not back at 0 after {} of the failing forms", desc, many.sp_at_rest_violations),
        )));
    }
    if many.probe_trace != base.probe_trace || many.probe_outcome != base.probe_outcome {
        return Ok(Some((
            "C07 burst stack-trace".into(),
            format!(
                "{}: a later failing form reports\n  after the failures: {} trace {:?}\n  in a VM that never failed: {} trace {:?}",
                desc,
                many.probe_outcome.brief(),
                many.probe_trace,
                base.probe_outcome.brief(),
                base.probe_trace
            ),
        )));
    }
    if many.later_value != base.later_value {
        return Ok(Some((
            "C07 burst later-value".into(),
            format!("{}: later form value {} vs {}", desc, many.later_value.brief(), base.later_value.brief()),
        )));
    }
    if many.stack_capacity > few.stack_capacity {
        return Ok(Some((
            "C07 burst stack-capacity-accumulates".into(),
            format!("{}: stack capacity {} after k failures, {} after {}", desc, many.stack_capacity, few.stack_capacity, 10.min(b.k)),
        )));
    }
    // memory held while the failures go on (the VM's own collection policy, nothing forced): the
    // heap may finish its warm-up between 10 and k failures, but must not grow again between k
    // and 3k
    if many.heap_capacity > few.heap_capacity && b.k >= 100 {
        let more = run_burst(b, b.k * 3)?;
        if more.heap_capacity > many.heap_capacity {
            return Ok(Some((
                "C07 burst heap-capacity-accumulates".into(),
                format!(
                    "{}: heap capacity {} cells after {} failures, {} after k, {} after 3k: failed evaluations accumulate memory",
                    desc,
                    few.heap_capacity,
                    10.min(b.k),
                    many.heap_capacity,
                    more.heap_capacity
                ),
            )));
        }
    }
    if many.used_after_collection > few.used_after_collection {
        return Ok(Some((
            "C07 burst memory-accumulates".into(),
            format!(
                "{}: cells in use after a collection: {} after k failures, {} after {}",
                desc,
                many.used_after_collection,
                few.used_after_collection,
                10.min(b.k)
            ),
        )));
    }
    Ok(None)
}

// ---------------------------------------------------------------------------
// batch
// ---------------------------------------------------------------------------

struct RunResult {
    evals: u64,
    positions: u64,
    kinds: BTreeMap<&'static str, u64>,
    injected_failures: u64,
    later_checked: u64,
    traces: u64,
    discarded: u64,
    nontrivial_keys: Vec<u64>,
    instrs: u64,
    violation: Option<Violation>,
    sample: Option<Value>,
    workload: &'static str,
}

fn faulted_to_json(f: &Faulted, case: &Case) -> Value {
    let mut c = case.clone();
    c.forms = f.vm_texts.clone();
    c.extra = json!({
        "ref_session": f.ref_forms.iter().map(|x| x.text()).collect::<Vec<_>>(),
        "twin_session": f.twin_forms.iter().map(|x| x.text()).collect::<Vec<_>>(),
        "fault_kind": f.kind.name(),
    });
    c.to_json()
}

fn one_run(seed: u64, run: u64, max_positions: usize) -> RunResult {
    let mut rng = Rng::new(mix(seed, "C07", run));
    let knobs = random_knobs(&mut rng);
    if run % 40 == 29 {
        let kind = RUNTIME_KINDS[rng.usize(RUNTIME_KINDS.len())];
        let name = if rng.chance(1, 3) { "unless".to_string() } else { format!("rk{}", run % 97) };
        let variant = rng.below(4);
        let mut res = RunResult {
            evals: 1,
            positions: 1,
            kinds: BTreeMap::new(),
            injected_failures: 1,
            later_checked: 4,
            traces: 0,
            discarded: 0,
            nontrivial_keys: vec![fnv64(format!("{}{}{}", name, variant, kind.name()).as_bytes())],
            instrs: 0,
            violation: None,
            sample: None,
            workload: "keyword-rebound-before-failure",
        };
        *res.kinds.entry(kind.name()).or_insert(0) += 1;
        if let Some((sig, detail)) = keyword_rebind_check(&name, variant, kind, run) {
            res.violation = Some(Violation {
                property: "C07".into(),
                oracle: "never-failed twin".into(),
                signature: sig,
                run,
                case: json!({"keyword_rebind": {"name": name, "variant": variant, "kind": kind.name(), "n": run}}),
                detail,
            });
        }
        return res;
    }
    if run % 10 == 9 {
        // nested syntax definitions in failing forms
        let f = if run % 20 == 9 {
            macro_leak_case(&mut rng, run)
        } else if run % 40 == 19 {
            keyword_formal_case(&mut rng, run)
        } else {
            unbound_then_defined_case(&mut rng, run)
        };
        let mut case = Case::new(vec![]);
        case.knobs = knobs;
        let mut res = RunResult {
            evals: 1,
            positions: 1,
            kinds: BTreeMap::new(),
            injected_failures: 0,
            later_checked: 0,
            traces: 0,
            discarded: 0,
            nontrivial_keys: vec![],
            instrs: 0,
            violation: None,
            sample: None,
            workload: "macro-in-failing-form",
        };
        *res.kinds.entry(f.kind.name()).or_insert(0) += 1;
        match evaluate(&f, &case) {
            EvalOut::Ok { injected_failures, later_forms_checked, traces_compared, instrs, .. } => {
                res.injected_failures = injected_failures as u64;
                res.later_checked = later_forms_checked as u64;
                res.traces = traces_compared as u64;
                res.instrs = instrs;
                res.nontrivial_keys.push(fnv64(f.vm_texts.join("\n").as_bytes()));
            }
            EvalOut::Discarded(_) => res.discarded = 1,
            EvalOut::Violation { class, detail } => {
                res.violation = Some(Violation {
                    property: "C07".into(),
                    oracle: if class.starts_with("reference") { "reference machine".into() } else { "never-failed twin / monitors".into() },
                    signature: format!("C07 {}", class),
                    run,
                    case: faulted_to_json(&f, &case),
                    detail,
                });
            }
        }
        return res;
    }
    let mut wl = rng.fork();
    let use_g05 = rng.chance(1, 4);
    let mut base = setup_forms();
    let setup_len = base.len();
    if use_g05 {
        base.extend(g05::session(&mut wl).forms);
    } else {
        let opt = Options {
            fail_permille: 0,
            max_forms: 9,
            ..Options::default()
        };
        let s = gen_g01_session(&mut wl, &opt);
        base.extend(s.forms);
        base.push(s.dump);
    }
    // the objects that failing mutators were aimed at
    base.push(read_one("(list %fault-vec %fault-str)").unwrap());
    // a failing probe at the end so that a stack trace is always compared
    base.push(read_one("(%probe-deep 1 5)").unwrap());
    let mut case = Case::new(vec![]);
    case.knobs = knobs;
    case.sched_seed = rng.next_u64();
    if rng.chance(1, 4) {
        let (plan, _) = pick_gc_plan(&mut rng, 2000);
        case.gc = plan;
    }
    if rng.chance(1, 5) {
        case.slices = SlicePlan::Random(1, 100);
    }
    let mut res = RunResult {
        evals: 0,
        positions: 0,
        kinds: BTreeMap::new(),
        injected_failures: 0,
        later_checked: 0,
        traces: 0,
        discarded: 0,
        nontrivial_keys: vec![],
        instrs: 0,
        violation: None,
        sample: None,
        workload: if use_g05 { "G05" } else { "G01" },
    };
    // target form: the one with most expression positions among the generated forms (not the last three)
    let candidates: Vec<usize> = (setup_len..base.len() - 3).collect();
    if candidates.is_empty() {
        return res;
    }
    let target = *candidates.iter().max_by_key(|i| expr_paths(&base[**i]).len().min(40) * 100 + (rng_hash(run, **i) % 100) as usize).unwrap();
    let mut paths = expr_paths(&base[target]);
    if paths.len() > max_positions {
        // keep a seeded subset but in order
        let mut idx: Vec<usize> = (0..paths.len()).collect();
        rng.shuffle(&mut idx);
        idx.truncate(max_positions);
        idx.sort();
        paths = idx.into_iter().map(|i| paths[i].clone()).collect();
    }
    // every position in turn; the kind rotates so that each kind meets each position class
    let kind_offset = rng.usize(ALL_KINDS.len());
    for (pi, path) in paths.iter().enumerate() {
        let kind = ALL_KINDS[(pi + kind_offset) % ALL_KINDS.len()];
        let f = inject(&base, target, path, kind, run * 1000 + pi as u64);
        res.evals += 1;
        res.positions += 1;
        *res.kinds.entry(kind.name()).or_insert(0) += 1;
        match evaluate(&f, &case) {
            EvalOut::Ok {
                injected_failures,
                later_forms_checked,
                traces_compared,
                instrs,
                effects_before_failure,
            } => {
                res.injected_failures += injected_failures as u64;
                res.later_checked += later_forms_checked as u64;
                res.traces += traces_compared as u64;
                res.instrs += instrs;
                if injected_failures > 0 && (effects_before_failure || later_forms_checked > 1) {
                    res.nontrivial_keys.push(fnv64(f.vm_texts.join("\n").as_bytes()));
                }
                if res.sample.is_none() && run < 2 && injected_failures > 0 {
                    res.sample = Some(json!({"session": f.vm_texts, "fault_kind": kind.name(), "position": path}));
                }
            }
            EvalOut::Discarded(_) => res.discarded += 1,
            EvalOut::Violation { class, detail } => {
                // minimise: fewer forms (keeping the set-up and the target), then simpler schedule
                let mut best = f.clone();
                let mut best_case = case.clone();
                let same = |ff: &Faulted, cc: &Case| matches!(evaluate(ff, cc), EvalOut::Violation { class: c2, .. } if c2 == class);
                let mut i = if crate::report::minimise_on() { setup_len } else { usize::MAX };
                while i < best.ref_forms.len() {
                    if best.ref_forms.len() <= setup_len + 1 {
                        break;
                    }
                    let mut cand = best.clone();
                    cand.ref_forms.remove(i);
                    cand.vm_texts.remove(i);
                    cand.twin_forms.remove(i);
                    if same(&cand, &best_case) {
                        best = cand;
                    } else {
                        i += 1;
                    }
                }
                for step in 0..3 {
                    let mut c = best_case.clone();
                    match step {
                        0 => c.gc = GcPlan::None,
                        1 => c.slices = SlicePlan::None,
                        _ => c.knobs = Knobs::default(),
                    }
                    if same(&best, &c) {
                        best_case = c;
                    }
                }
                let detail = match evaluate(&best, &best_case) {
                    EvalOut::Violation { detail, .. } => detail,
                    _ => detail,
                };
                res.violation = Some(Violation {
                    property: "C07".into(),
                    oracle: if class.starts_with("reference") { "reference machine".into() } else { "never-failed twin / monitors".into() },
                    signature: format!("C07 {}", class),
                    run,
                    case: faulted_to_json(&best, &best_case),
                    detail,
                });
                break;
            }
        }
    }
    res
}

/// A failing form that contains a nested `define-syntax` which is never reached (the failure
/// comes first) or never completed (a compile-time error later in the same form): the keyword
/// must not exist afterwards, and a procedure of that name must still be the procedure.
/// The reference machine has no macros: it rejects the whole form (no effect), which is exactly
/// the prescribed outcome because the form performs no effect before failing.
fn macro_leak_case(rng: &mut Rng, run: u64) -> Faulted {
    let kind = RUNTIME_KINDS[rng.usize(RUNTIME_KINDS.len())];
    let fault = vm_text(&kind.vm_expr(run * 1000 + 1));
    let kw = format!("kw{}", run % 97);
    let clash = rng.chance(1, 2);
    let name = if clash { "twice-fn".to_string() } else { kw };
    let rules = format!("(define-syntax {} (syntax-rules () ((_ a) (list 'macro a)) ((_ a b) (list 'macro b a))))", name);
    let failing = match rng.below(5) {
        0 => format!("(begin {} {})", fault, rules),
        1 => format!("(let ((tmp-x 1)) {} {} tmp-x)", fault, rules),
        2 => format!("((lambda () {} {} 'done))", fault, rules),
        3 => format!("(if (= 1 1) (begin {} {}) 'no)", fault, rules),
        // compile-time failure after the definition was compiled
        _ => format!("(begin {} (if))", rules),
    };
    let mut texts: Vec<String> = setup_forms().iter().map(|f| f.text()).collect();
    texts.push("(define (twice-fn x) (* 2 x))".into());
    texts.push("(define p-var (list 1 2))".into());
    texts.push(failing);
    texts.push(format!("({} 21)", name));
    texts.push(format!("({} 1 2)", name));
    texts.push("(twice-fn 4)".into());
    texts.push("(%probe-deep 1 5)".into());
    // the reference reads the same texts; the failing form is rejected by its compiler
    let ref_forms: Vec<Sx> = texts
        .iter()
        .map(|t| read_one(t).unwrap_or_else(|_| read_one("(if)").unwrap()))
        .collect();
    Faulted {
        ref_forms: ref_forms.clone(),
        vm_texts: texts,
        twin_forms: ref_forms,
        kind,
    }
}

/// A form that is rejected while it is being expanded, inside a lambda (or a let-family form)
/// one of whose variables is named like a derived-form keyword; afterwards every derived form
/// must still work. No fault is injected: the failure is the program's own.
fn keyword_formal_case(rng: &mut Rng, _run: u64) -> Faulted {
    let kw = *rng.pick(&["when", "unless", "cond", "and", "or", "case", "let*", "begin"]);
    let bad = *rng.pick(&["(cond)", "(when)", "(let ((z)) z)", "(let* (q) q)", "(case)"]);
    let failing = match rng.below(4) {
        0 => format!("((lambda (x {kw}) {bad}) 1 2)", kw = kw, bad = bad),
        1 => format!("(let ((v 1)) ((lambda ({kw}) (list v {bad})) 5))", kw = kw, bad = bad),
        2 => format!("(define (uses-{kw}-name {kw}) (if {kw} {bad} 'no))", kw = kw, bad = bad),
        _ => format!("(let loop ((i 0) ({kw} 5)) (if (< i 1) (loop (+ i 1) {bad}) i))", kw = kw, bad = bad),
    };
    let mut texts: Vec<String> = setup_forms().iter().map(|f| f.text()).collect();
    texts.push("(when #t 7)".into());
    texts.push(failing.clone());
    if rng.chance(1, 2) {
        texts.push(failing);
    }
    texts.push("(list (when #t 7) (unless #f 8) (cond (#f 1) (else 9)) (and 1 2) (or #f 3) (case 2 ((1) 'a) ((2) 'b) (else 'c)) (let* ((a 1) (b (+ a 1))) b) (begin 1 2))".into());
    texts.push("(let loop ((i 0) (acc '())) (if (< i 3) (loop (+ i 1) (cons (when (> i 0) i) acc)) acc))".into());
    texts.push("(%probe-deep 1 5)".into());
    let forms: Vec<Sx> = texts.iter().map(|t| read_one(t).expect("template reads")).collect();
    Faulted {
        ref_forms: forms.clone(),
        vm_texts: texts,
        twin_forms: forms,
        kind: FaultKind::MacroSyntax,
    }
}

/// A procedure compiled while a global it references is still undefined; calls fail with an
/// unbound variable (k times); then the global is defined (or assigned) and the old procedure
/// must work. No fault is injected: the failures are the program's own.
fn unbound_then_defined_case(rng: &mut Rng, run: u64) -> Faulted {
    let n = run % 89;
    let k = 1 + rng.usize(3);
    let mut texts: Vec<String> = setup_forms().iter().map(|f| f.text()).collect();
    texts.push(format!("(define (user{n} x) (+ x (late{n} x)))", n = n));
    texts.push(format!("(define (deep-user{n} d x) (if (= d 0) (list 'v (late-var{n}) x) (deep-user{n} (- d 1) x)))", n = n));
    for i in 0..k {
        texts.push(format!("(user{} {})", n, i));
        if rng.chance(1, 2) {
            texts.push(format!("(call/cc (lambda (esc) (deep-user{} 2 {})))", n, i));
        }
        if rng.chance(1, 2) {
            texts.push(format!("late{}", n));
        }
    }
    if rng.chance(1, 2) {
        texts.push(format!("(define (late{n} x) (* x 2))", n = n));
    } else {
        texts.push(format!("(define late{n} (lambda (x) (* x 2)))", n = n));
    }
    texts.push(format!("(define late-var{n} (lambda () 'now-bound))", n = n));
    texts.push(format!("(user{} 5)", n));
    texts.push(format!("(deep-user{} 3 'x)", n));
    texts.push(format!("(late{} 21)", n));
    texts.push("(%probe-deep 1 5)".into());
    let forms: Vec<Sx> = texts.iter().map(|t| read_one(t).expect("template reads")).collect();
    Faulted {
        ref_forms: forms.clone(),
        vm_texts: texts,
        twin_forms: forms,
        kind: FaultKind::Unbound,
    }
}

/// A form uses a derived-form keyword, rebinds it (the rebinding completes) and then fails. The
/// reference machine has no syntax-rules, so the oracle here is the never-failed twin alone: the
/// same session in which the failing expression is an escape through a continuation instead.
/// Later uses of the keyword must agree.
fn keyword_rebind_texts(name: &str, variant: u64, fault: &str) -> (Vec<String>, usize) {
    let old_rules = format!("(define-syntax {} (syntax-rules () ((_ a) (list 'old-macro a)) ((_ a b) (list 'old-macro a b))))", name);
    let new_rules = format!("(define-syntax {} (syntax-rules () ((_ a) (list 'new-macro a)) ((_ a b) (list 'new-macro b a))))", name);
    let failing = match variant % 4 {
        0 => format!("(begin ({} 1) {} {})", name, new_rules, fault),
        1 => format!("(list ({} 1 2) (begin {} 'rebound) {})", name, new_rules, fault),
        2 => format!("(let ((t ({} 5))) {} (set! {} (lambda (a . b) (list 'now-a-procedure a b))) {})", name, "'x", name, fault),
        _ => format!("((lambda () ({} 1) {} (car ({} 2)) {}))", name, new_rules, name, fault),
    };
    let mut texts: Vec<String> = setup_forms().iter().map(|f| f.text()).collect();
    texts.push(old_rules);
    texts.push(format!("({} 7)", name));
    let failing_index = texts.len();
    texts.push(failing);
    texts.push(format!("({} 2)", name));
    texts.push("(car '())".to_string());
    texts.push(format!("({} 3 4)", name));
    texts.push(format!("(list ({} 'x) (when #t 1))", name));
    (texts, failing_index)
}

fn keyword_rebind_check(name: &str, variant: u64, kind: FaultKind, n: u64) -> Option<(String, String)> {
    let fault = vm_text(&kind.vm_expr(n));
    let (failing_texts, idx) = keyword_rebind_texts(name, variant, &fault);
    let (mut twin_texts, _) = keyword_rebind_texts(name, variant, "(%abort-k 'aborted)");
    twin_texts[idx] = format!("(call/cc (lambda (%k) (set! %abort-k %k) {}))", twin_texts[idx]);
    let run = |texts: &[String]| -> Vec<String> {
        let mut sim = Sim::new(&Knobs::default(), GcPlan::None, SlicePlan::None, 1);
        sim.set_gc_mode(GcMode::Normal);
        texts.iter().map(|t| sim.eval_form(t).outcome.brief()).collect()
    };
    let a = run(&failing_texts);
    let b = run(&twin_texts);
    if !a[idx].starts_with("error") {
        return None; // the injected failure did not fail in this shape: nothing to judge
    }
    for i in idx + 1..a.len() {
        if a[i] != b[i] {
            return Some((
                "C07 twin keyword-rebound-before-failure".to_string(),
                format!(
                    "form {}: {}\n  VM whose form {} failed ({}): {}\n  VM that never failed:   {}\n  failing form: {}",
                    i, failing_texts[i], idx, a[idx], a[i], b[i], failing_texts[idx]
                ),
            ));
        }
    }
    None
}

fn rng_hash(a: u64, b: usize) -> u64 {
    let mut s = a ^ (b as u64).wrapping_mul(0x9E37_79B9_7F4A_7C15);
    crate::rng::splitmix(&mut s)
}

pub fn run(tier: Tier, seed: u64, ev: &mut Evidence) -> Vec<Violation> {
    let (n, max_positions, ks): (u64, usize, Vec<u64>) = match tier {
        Tier::Quick => (500, 24, vec![1, 10, 100, 1000]),
        Tier::Thorough => (20_000, 64, vec![1, 10, 100, 1000]),
    };
    ev.rule = "fault enumeration: for a generated session (G01 without deliberate failures, or G05) the form with most expression positions \
               is chosen and a failure is injected at each of its positions in turn (up to the stated cap, seeded subset beyond), the kind \
               rotating over unbound variable, wrong type, wrong arity, user error, call of a non-procedure, compile-time bad syntax, read error; \
               oracles: reference machine (completed effects persist, later forms), never-failed twin VM in which earlier failing forms are \
               escape variants (later values, failures and last_stacktrace frames identical), stack pointer at rest after every form; bursts of \
               k in {1,10,100,1000} consecutive failures at call depth {0,3,50} per kind: trace of a later failure equals a fresh VM's, stack \
               capacity and cells in use after a collection do not exceed those after 10 failures. distinct = faulted session hash; \
               non-trivial = the failing form produced output before failing or more than one later form was compared"
        .into();
    let results = par_runs(n, |i| one_run(seed, i, max_positions));
    let mut distinct = HashSet::new();
    let mut violations = vec![];
    for r in results {
        ev.evaluations += r.evals;
        ev.count("positions_injected", r.positions);
        ev.count("later_forms_checked", r.later_checked);
        ev.count("stack_traces_compared", r.traces);
        ev.count("discarded", r.discarded);
        ev.count("simulated_instructions", r.instrs);
        ev.count(&format!("runs_workload_{}", r.workload), 1);
        for (k, v) in r.kinds {
            ev.fault(&format!("eval_fault_{}", k), v);
        }
        ev.count("injected_failures_fired", r.injected_failures);
        for k in r.nontrivial_keys {
            distinct.insert(k);
        }
        if let Some(s) = r.sample {
            if ev.samples.len() < 3 {
                ev.samples.push(s);
            }
        }
        if let Some(v) = r.violation {
            violations.push(v);
        }
    }
    // bursts
    let mut bursts = vec![];
    for kind in ALL_KINDS {
        for depth in [0u64, 3, 50] {
            for k in &ks {
                bursts.push(Burst {
                    k: *k,
                    depth,
                    kind,
                    knobs: Knobs::default(),
                });
            }
        }
    }
    let bres = par_runs(bursts.len() as u64, |i| evaluate_burst(&bursts[i as usize]));
    for (i, r) in bres.into_iter().enumerate() {
        ev.evaluations += 1;
        ev.fault("consecutive_failures", bursts[i].k);
        match r {
            Ok(None) => {
                distinct.insert(fnv64(format!("{:?}", bursts[i]).as_bytes()));
            }
            Ok(Some((sig, detail))) => violations.push(Violation {
                property: "C07".into(),
                oracle: "burst monitors".into(),
                signature: sig,
                run: 9_000_000 + i as u64,
                case: json!({"burst": {"k": bursts[i].k, "depth": bursts[i].depth, "kind": bursts[i].kind.name()}}),
                detail,
            }),
            Err(e) => {
                ev.count("burst_skipped", 1);
                if ev.notes.len() < 5 {
                    ev.notes.push(format!("burst skipped: {}", e));
                }
            }
        }
    }
    ev.distinct_nontrivial = distinct.len() as u64;
    ev.extra.insert("burst_grid".into(), json!({"k": ks, "depth": [0, 3, 50], "kinds": ALL_KINDS.iter().map(|k| k.name()).collect::<Vec<_>>()}));
    ev.extra.insert("positions_cap_per_form".into(), json!(max_positions));
    ev.exhaustive = Some(false);
    violations
}

pub fn replay(case: &Value) -> Result<Option<Violation>, String> {
    if let Some(k) = case.get("keyword_rebind") {
        let kind = ALL_KINDS
            .iter()
            .find(|x| Some(x.name()) == k["kind"].as_str())
            .cloned()
            .ok_or("unknown fault kind")?;
        let name = k["name"].as_str().unwrap_or("rk0").to_string();
        return Ok(keyword_rebind_check(&name, k["variant"].as_u64().unwrap_or(0), kind, k["n"].as_u64().unwrap_or(0)).map(|(sig, detail)| Violation {
            property: "C07".into(),
            oracle: "never-failed twin".into(),
            signature: sig,
            run: 0,
            case: case.clone(),
            detail,
        }));
    }
    if let Some(b) = case.get("burst") {
        let kind = ALL_KINDS
            .iter()
            .find(|k| Some(k.name()) == b["kind"].as_str())
            .cloned()
            .ok_or("unknown fault kind")?;
        let burst = Burst {
            k: b["k"].as_u64().unwrap_or(10),
            depth: b["depth"].as_u64().unwrap_or(0),
            kind,
            knobs: Knobs::default(),
        };
        return Ok(evaluate_burst(&burst)?.map(|(sig, detail)| Violation {
            property: "C07".into(),
            oracle: "burst monitors".into(),
            signature: sig,
            run: 0,
            case: case.clone(),
            detail,
        }));
    }
    let c = Case::from_json(case)?;
    let parse = |key: &str| -> Result<Vec<Sx>, String> {
        c.extra[key]
            .as_array()
            .ok_or(format!("{} missing", key))?
            .iter()
            .map(|t| read_one(t.as_str().unwrap_or("")))
            .collect()
    };
    let kind = ALL_KINDS
        .iter()
        .find(|k| Some(k.name()) == c.extra["fault_kind"].as_str())
        .cloned()
        .unwrap_or(FaultKind::Type);
    let f = Faulted {
        ref_forms: parse("ref_session")?,
        vm_texts: c.forms.clone(),
        twin_forms: parse("twin_session")?,
        kind,
    };
    Ok(match evaluate(&f, &c) {
        EvalOut::Violation { class, detail } => Some(Violation {
            property: "C07".into(),
            oracle: "never-failed twin / monitors".into(),
            signature: format!("C07 {}", class),
            run: 0,
            case: case.clone(),
            detail,
        }),
        _ => None,
    })
}

pub fn rerun(tier: Tier, seed: u64, run: u64) -> Option<Violation> {
    if run >= 9_000_000 {
        return None;
    }
    let max_positions = match tier {
        Tier::Quick => 24,
        Tier::Thorough => 64,
    };
    one_run(seed, run, max_positions).violation
}
