//! C13 — sliced execution is equivalent to uninterrupted execution (DESIGN §5 C13).
use crate::case::{minimise, Case};
use crate::gen::g01::Options;
use crate::kernel::{opcode_name, GcPlan, Obs, Outcome, SlicePlan};
use crate::props::common::*;
use crate::report::{Evidence, Tier, Violation};
use crate::rng::{mix, Rng};
use crate::runner::par_runs;
use marwood::vm::verif::GcMode;
use serde_json::{json, Value};
use std::collections::HashSet;

const CAP: u64 = 400_000;

struct Eval {
    signature: String,
    detail: String,
}

enum EvalOut {
    Ok { cuts: u64, resumes: u64, instrs: u64, cut_contexts: Vec<(u8, u8)> },
    Discarded(&'static str),
    Violation(Eval),
}

fn composed(case: &Case) -> bool {
    case.extra.get("mode").and_then(|m| m.as_str()) == Some("composed")
}

fn describe(o: &Obs) -> String {
    format!("{} output={:?} instrs={}", o.outcome.brief(), o.output.iter().map(|e| e.value.show()).collect::<Vec<_>>(), o.instrs)
}

fn evaluate(case: &Case) -> EvalOut {
    let mode = if composed(case) { GcMode::Normal } else { GcMode::Suppress };
    let mut base_case = case.clone();
    base_case.slices = SlicePlan::None;
    let base = run_case(
        &base_case,
        &RunOpts {
            mode,
            cap: CAP,
            record_ops: true,
            ..Default::default()
        },
    );
    for o in &base.obs {
        match o.outcome {
            Outcome::Diverged => return EvalOut::Discarded("baseline_diverged"),
            Outcome::Panic(_) => {
                if std::env::var("VERIF_DEBUG_DISCARD").is_ok() {
                    eprintln!("baseline panic: {}", describe(o));
                }
                return EvalOut::Discarded("baseline_panic_outside_property");
            }
            _ => {}
        }
    }
    let sliced = run_case(
        case,
        &RunOpts {
            mode,
            cap: CAP * 2,
            ..Default::default()
        },
    );
    let budget_desc = match &case.slices {
        SlicePlan::Constant(b) => format!("constant budget {}", b),
        SlicePlan::Random(lo, hi) => format!("random budgets {}..{}", lo, hi),
        SlicePlan::Explicit(v) => format!("explicit budgets {:?}", &v[..v.len().min(8)]),
        SlicePlan::CutsAt(_) => "adversarial cuts".to_string(),
        SlicePlan::None => "none".to_string(),
    };
    for (i, (a, b)) in base.obs.iter().zip(sliced.obs.iter()).enumerate() {
        let class = if matches!(b.outcome, Outcome::Stalled) {
            Some("no-progress".to_string())
        } else if matches!(b.outcome, Outcome::Panic(_)) {
            Some("panic-while-sliced".to_string())
        } else if a.outcome != b.outcome {
            let kind = |o: &Outcome| match o {
                Outcome::Value(_) => "value",
                Outcome::Error(_, _, _) => "failure",
                Outcome::Diverged => "not-completed",
                Outcome::Panic(_) => "panic",
                Outcome::Stalled => "stalled",
            };
            Some(format!("outcome {}-vs-{}", kind(&a.outcome), kind(&b.outcome)))
        } else if a.output != b.output {
            Some("output".to_string())
        } else if a.instrs != b.instrs {
            Some("instruction-count".to_string())
        } else {
            None
        };
        if let Some(class) = class {
            let is_last = i + 1 == case.forms.len();
            let what = if is_last && case.extra.get("dump_is_last").and_then(|d| d.as_bool()).unwrap_or(false) {
                "global-effects"
            } else {
                "form"
            };
            return EvalOut::Violation(Eval {
                signature: format!("C13 {} {}", what, class),
                detail: format!(
                    "form {}: {}\n  uninterrupted: {}\n  sliced ({}): {} resumes={}",
                    i,
                    case.forms[i],
                    describe(a),
                    budget_desc,
                    describe(b),
                    b.resumes
                ),
            });
        }
    }
    // contexts of cuts: (previous opcode, next opcode) at each cut position of the baseline trace
    let mut cut_contexts = vec![];
    if let SlicePlan::Constant(b) = &case.slices {
        for ops in &base.ops {
            let mut pos = *b as usize;
            while pos > 0 && pos < ops.len() {
                cut_contexts.push((ops[pos - 1], ops[pos]));
                pos += (*b as usize).max(1);
            }
        }
    }
    EvalOut::Ok {
        cuts: sliced.slice_cuts,
        resumes: sliced.obs.iter().map(|o| o.resumes).sum(),
        instrs: sliced.instructions,
        cut_contexts,
    }
}

/// cut positions right before and right after the interesting instructions of a baseline trace
fn adversarial_cuts(ops: &[Vec<u8>], rng: &mut Rng) -> Vec<Vec<u64>> {
    ops.iter()
        .map(|form_ops| {
            let mut cuts = vec![];
            for (i, op) in form_ops.iter().enumerate() {
                // CALL, TCALL, VARARG, ENTER, RET, CLOSURE
                if matches!(*op, 11 | 15 | 16 | 13 | 14 | 12) && rng.chance(1, 2) {
                    if i > 0 {
                        cuts.push(i as u64);
                    }
                    if rng.chance(1, 2) {
                        cuts.push(i as u64 + 1);
                    }
                }
            }
            cuts.sort();
            cuts.dedup();
            cuts
        })
        .collect()
}

struct RunResult {
    evals: u64,
    nontrivial_keys: Vec<u64>,
    discarded: Vec<&'static str>,
    violation: Option<Violation>,
    cuts: u64,
    resumes: u64,
    instrs: u64,
    contexts: Vec<(u8, u8)>,
    sample: Option<Value>,
    family: &'static str,
}

fn one_run(seed: u64, run: u64, exhaustive_budgets: bool) -> RunResult {
    let mut rng = Rng::new(mix(seed, "C13", run));
    let knobs = random_knobs(&mut rng);
    let mut opt = Options::default();
    if exhaustive_budgets {
        opt.max_forms = 6;
        opt.max_depth = 3;
    }
    let mut wl = rng.fork();
    // a quarter of the programs come from the continuation generator
    let forms: Vec<String> = if run % 4 == 3 {
        crate::gen::g05::session(&mut wl).forms.iter().map(|f| f.text()).collect()
    } else if run % 8 == 5 {
        // objects that are mutated after their creation (pool operations of G14 / G15)
        if run % 16 == 5 {
            crate::gen::g14::G14::new(&mut wl).generate(8).0.iter().map(|f| f.text()).collect()
        } else {
            crate::gen::g15::G15::new(&mut wl).generate(8).0.iter().map(|f| f.text()).collect()
        }
    } else if run % 16 == 14 {
        // live structures more than a thousand non-cdr edges deep, built and walked under slices
        crate::gen::templates_deep::deep_session(&mut wl).0
    } else if run % 8 == 6 {
        crate::gen::templates::mixed_session(&mut wl).0
    } else {
        let session = gen_g01_session(&mut wl, &opt);
        let mut forms: Vec<String> = session.forms.iter().map(|f| f.text()).collect();
        forms.push(session.dump.text());
        forms
    };
    let mut case = Case::new(forms);
    case.knobs = knobs;
    case.sched_seed = rng.next_u64();
    // programs about heap objects (pool operations, allocation templates) always run with the
    // production collector under slices; the others in a third of the runs
    let heap_program = run % 8 == 5 || run % 8 == 6;
    let is_composed = rng.chance(1, 3) || heap_program;
    case.extra = if is_composed {
        // ballast: every slice end then really collects
        json!({"mode": "composed", "dump_is_last": true, "ballast": 0.745})
    } else {
        json!({"mode": "pure", "dump_is_last": true})
    };
    if is_composed {
        case.gc = GcPlan::None;
    }
    let mut res = RunResult {
        evals: 0,
        nontrivial_keys: vec![],
        discarded: vec![],
        violation: None,
        cuts: 0,
        resumes: 0,
        instrs: 0,
        contexts: vec![],
        sample: None,
        family: "",
    };
    let mut plans: Vec<(SlicePlan, &'static str)> = vec![];
    if exhaustive_budgets {
        for b in 1..=64usize {
            plans.push((SlicePlan::Constant(b), "constant"));
        }
    } else {
        match rng.below(3) {
            0 => plans.push((SlicePlan::Random(1, 10_000), "random")),
            1 => plans.push((SlicePlan::Random(1, 50), "random-small")),
            _ => {
                // learn the trace first
                let mut base_case = case.clone();
                base_case.slices = SlicePlan::None;
                let base = run_case(
                    &base_case,
                    &RunOpts {
                        mode: if is_composed { GcMode::Normal } else { GcMode::Suppress },
                        cap: CAP,
                        record_ops: true,
                        ..Default::default()
                    },
                );
                let cuts = adversarial_cuts(&base.ops, &mut rng);
                plans.push((SlicePlan::CutsAt(cuts), "adversarial"));
            }
        }
    }
    let session_hash = crate::rng::fnv64(case.forms.join("\n").as_bytes());
    for (plan, family) in plans {
        case.slices = plan;
        res.family = family;
        res.evals += 1;
        match evaluate(&case) {
            EvalOut::Ok {
                cuts,
                resumes,
                instrs,
                cut_contexts,
            } => {
                res.cuts += cuts;
                res.resumes += resumes;
                res.instrs += instrs;
                // non-trivial: >= 2 slices and a cut inside a procedure call (any cut whose
                // neighbourhood is not the entry sequence); approximated by >= 2 cuts
                if cuts >= 2 {
                    let key = session_hash ^ crate::rng::fnv64(format!("{:?}", case.slices).as_bytes());
                    res.nontrivial_keys.push(key);
                }
                res.contexts.extend(cut_contexts);
                if res.sample.is_none() && run < 3 {
                    res.sample = Some(json!({"session": case.forms, "slices": crate::case::slices_to_json(&case.slices), "mode": case.extra["mode"], "cuts": cuts}));
                }
            }
            EvalOut::Discarded(why) => {
                res.discarded.push(why);
                break;
            }
            EvalOut::Violation(e) => {
                // minimise
                let sig = e.signature.clone();
                let min = minimise(&case, &sig, |c| match evaluate(c) {
                    EvalOut::Violation(v) => Some((v.signature, vec![])),
                    _ => None,
                });
                let detail = match evaluate(&min) {
                    EvalOut::Violation(v) => v.detail,
                    _ => e.detail.clone(),
                };
                res.violation = Some(Violation {
                    property: "C13".into(),
                    oracle: "differential twin (uninterrupted eval) + progress".into(),
                    signature: sig,
                    run,
                    case: min.to_json(),
                    detail,
                });
                break;
            }
        }
    }
    res
}

pub fn run(tier: Tier, seed: u64, ev: &mut Evidence) -> Vec<Violation> {
    let (n_exh, n_rand) = match tier {
        Tier::Quick => (160u64, 2500u64),
        Tier::Thorough => (3000u64, 60_000u64),
    };
    ev.rule = "G01 sessions (+ final dump of all data globals) and G05 continuation sessions run uninterrupted and sliced in twin VMs; \
               exhaustive part: every constant budget 1..64 for each short program; sampled part: random budgets 1..10^4, \
               random small budgets, adversarial cuts before/after CALL/TCALL/VARARG/ENTER/RET/CLOSURE; modes pure (collections \
               suppressed in both twins) and composed (production collector). distinct = (session, budget plan) hash; \
               non-trivial = the sliced run was cut at least twice"
        .into();
    let results = par_runs(n_exh + n_rand, |i| one_run(seed, i, i < n_exh));
    let mut violations = vec![];
    let mut distinct: HashSet<u64> = HashSet::new();
    let mut contexts: HashSet<(u8, u8)> = HashSet::new();
    for r in results {
        ev.evaluations += r.evals;
        for k in r.nontrivial_keys {
            distinct.insert(k);
        }
        for d in r.discarded {
            ev.count(&format!("discarded_{}", d), 1);
        }
        ev.fault("slice_cut", r.cuts);
        ev.count("resumes", r.resumes);
        ev.count("simulated_instructions", r.instrs);
        ev.count(&format!("runs_family_{}", r.family), 1);
        for c in r.contexts {
            contexts.insert(c);
        }
        if let Some(s) = r.sample {
            if ev.samples.len() < 3 {
                ev.samples.push(s);
            }
        }
        if let Some(v) = r.violation {
            violations.push(v);
        }
    }
    ev.distinct_nontrivial = distinct.len() as u64;
    ev.extra.insert("distinct_cut_contexts".into(), json!(contexts.len()));
    let mut ctx: Vec<String> = contexts
        .iter()
        .map(|(a, b)| format!("{}|{}", opcode_name(*a), opcode_name(*b)))
        .collect();
    ctx.sort();
    ev.extra.insert("cut_contexts_prev_next_opcode".into(), json!(ctx));
    ev.extra.insert("constant_budgets_enumerated".into(), json!("1..64 for each of the first short programs"));
    ev.assumptions.push("three quarters of the programs are G01 sessions, one quarter G05 continuation sessions".into());
    violations
}

pub fn replay(case: &Value) -> Result<Option<Violation>, String> {
    let case = Case::from_json(case)?;
    Ok(match evaluate(&case) {
        EvalOut::Violation(e) => Some(Violation {
            property: "C13".into(),
            oracle: "differential twin (uninterrupted eval) + progress".into(),
            signature: e.signature,
            run: 0,
            case: case.to_json(),
            detail: e.detail,
        }),
        _ => None,
    })
}

pub fn rerun(tier: Tier, seed: u64, run: u64) -> Option<Violation> {
    let n_exh = match tier {
        Tier::Quick => 160u64,
        Tier::Thorough => 3000u64,
    };
    one_run(seed, run, run < n_exh).violation
}
