//! C02 — lexical scoping: innermost binding wins, closures share mutable locations.
use crate::case::Case;
use crate::gen::g02::{call_shape_session, enumerate_small, loop_session, random_skeleton, Skeleton};
use crate::kernel::{Knobs, SlicePlan};
use crate::props::c01::{evaluate, make_violation, EvalOut};
use crate::props::gcsearch::pick_gc_plan;
use crate::report::{Evidence, Tier, Violation};
use crate::rng::{fnv64, mix, Rng};
use crate::runner::par_runs;
use serde_json::{json, Value};
use std::collections::HashSet;

struct RunResult {
    evals: u64,
    layouts: u64,
    violation: Option<Violation>,
    nontrivial: bool,
    key: u64,
    discarded: u64,
    instrs: u64,
    sample: Option<Value>,
    depth: usize,
}

fn one_run(seed: u64, run: u64, skeleton: Option<&Skeleton>) -> RunResult {
    let mut rng = Rng::new(mix(seed, "C02", run));
    // a fifth of the sampled runs: loop sessions (activations = iterations of a loop)
    let (forms, nontrivial, depth) = match skeleton {
        Some(s) => (s.render(), s.nontrivial(), s.depth()),
        None => {
            let mut wl = rng.fork();
            if run % 5 == 4 {
                (loop_session(&mut wl), true, 0)
            } else if run % 5 == 3 {
                (call_shape_session(&mut wl), true, 0)
            } else {
                let sk = random_skeleton(&mut wl);
                (sk.render(), sk.nontrivial(), sk.depth())
            }
        }
    };
    let text: Vec<String> = forms.iter().map(|f| f.text()).collect();
    let key = fnv64(text.join("\n").as_bytes());
    let mut res = RunResult {
        evals: 0,
        layouts: 0,
        violation: None,
        nontrivial,
        key,
        discarded: 0,
        instrs: 0,
        sample: None,
        depth,
    };
    // the same skeleton under >= 4 closure-slot layouts; collection schedules and slices composed
    for layout in 0..4u64 {
        let mut case = Case::new(vec![]);
        case.knobs = Knobs {
            slot_order_seed: if layout == 0 { 0 } else { rng.next_u64() | 1 },
            heap_chunk: 8192,
        };
        case.sched_seed = rng.next_u64();
        if layout >= 2 && rng.chance(1, 2) {
            let (plan, _) = pick_gc_plan(&mut rng, 1500);
            case.gc = plan;
            case.between_forms_gc = rng.chance(1, 2);
        }
        if layout == 3 && rng.chance(1, 2) {
            case.slices = SlicePlan::Random(1, 60);
        }
        res.evals += 1;
        match evaluate(&forms, &case, false) {
            EvalOut::Ok { instrs, discarded, .. } => {
                res.layouts += 1;
                res.instrs += instrs;
                if discarded.is_some() {
                    res.discarded += 1;
                }
                if res.sample.is_none() && run % 400 == 0 {
                    res.sample = Some(json!({"session": text, "slot_order_seed": case.knobs.slot_order_seed}));
                }
            }
            EvalOut::Discarded(_) => res.discarded += 1,
            EvalOut::Violation { class, detail } => {
                res.violation = Some(make_violation("C02", run, &forms, &case, class, detail, false));
                break;
            }
        }
    }
    res
}

pub fn run(tier: Tier, seed: u64, ev: &mut Evidence) -> Vec<Violation> {
    let n_random = match tier {
        Tier::Quick => 4000u64,
        Tier::Thorough => 250_000u64,
    };
    let small = enumerate_small();
    ev.rule = "scope skeletons: nested procedures over names a,b,c, each level binding each name as parameter / rest parameter / internal \
               definition / not at all, reads (logged with a unique tag) and set! (unique values) before and after closure creation, inner \
               closure called at once / twice through a let / as internal definition / stored in a global and called from later forms / \
               returned and called from separate activations; a fifth of the sampled runs are call-shape sessions (the caller's bindings after a call that reached a fixed-arity or variadic callee, with 0-3 optional arguments, through a middle procedure in tail or non-tail position), another fifth loop sessions (each iteration of a self-tail-recursive, named-let, mutually recursive, non-tail, apply or for-each loop creates closures over the loop variables, which are used and mutated after the loop); complete enumeration of depth <= 2 over two names with canonical actions \
               (first runs), seeded sampling up to depth 4 over three names; each skeleton under 4 closure-slot layouts (hook H4) with collection \
               schedules and slices composed; oracle: the reference machine's read log and final globals. distinct = skeleton text hash; \
               non-trivial = a name is shadowed and a captured variable is mutated after capture"
        .into();
    let n_small = small.len() as u64;
    let results = par_runs(n_small + n_random, |i| {
        if i < n_small {
            one_run(seed, i, Some(&small[i as usize]))
        } else {
            one_run(seed, i, None)
        }
    });
    let mut distinct = HashSet::new();
    let mut violations = vec![];
    for r in results {
        ev.evaluations += r.evals;
        ev.fault("slot_order_permutation", r.layouts);
        ev.count("discarded", r.discarded);
        ev.count("simulated_instructions", r.instrs);
        if r.depth == 0 {
            ev.count("loop_sessions", 1);
        } else {
            ev.count(&format!("skeletons_depth_{}", r.depth), 1);
        }
        if r.nontrivial {
            distinct.insert(r.key);
        }
        if let Some(s) = r.sample {
            if ev.samples.len() < 4 {
                ev.samples.push(s);
            }
        }
        if let Some(v) = r.violation {
            violations.push(v);
        }
    }
    ev.distinct_nontrivial = distinct.len() as u64;
    ev.extra.insert("enumerated_small_skeletons".into(), json!(n_small));
    ev.extra.insert(
        "enumeration".into(),
        json!("all binding combinations of (a,b) at depth 1 and at both levels of depth 2, x 5 closure-use modes, with canonical read/set/read actions: complete"),
    );
    violations
}

pub fn replay(case: &Value) -> Result<Option<Violation>, String> {
    crate::props::c01::replay_as("C02", case)
}

pub fn rerun(_tier: Tier, seed: u64, run: u64) -> Option<Violation> {
    let small = enumerate_small();
    if (run as usize) < small.len() {
        one_run(seed, run, Some(&small[run as usize])).violation
    } else {
        one_run(seed, run, None).violation
    }
}
