//! C15 — list and vector procedures match their specification and preserve identity.
use crate::case::Case;
use crate::gen::g15::G15;
use crate::kernel::SlicePlan;
use crate::props::c01::{evaluate, make_violation, EvalOut};
use crate::props::common::random_knobs;
use crate::props::gcsearch::pick_gc_plan;
use crate::report::{Evidence, Tier, Violation};
use crate::rng::{fnv64, mix, Rng};
use crate::runner::par_runs;
use serde_json::{json, Value};
use std::collections::{BTreeMap, HashSet};

struct RunResult {
    violation: Option<Violation>,
    key: u64,
    nontrivial: bool,
    discarded: Option<String>,
    forms: u64,
    ops: BTreeMap<&'static str, u64>,
    instrs: u64,
    sample: Option<Value>,
    composed: bool,
}

fn one_run(seed: u64, run: u64) -> RunResult {
    let mut rng = Rng::new(mix(seed, "C15", run));
    let knobs = random_knobs(&mut rng);
    let mut wl = rng.fork();
    let steps = 4 + wl.usize(7); // up to 10 operations
    let (forms, width_changes, ops) = G15::new(&mut wl).generate(steps);
    let text: Vec<String> = forms.iter().map(|f| f.text()).collect();
    let mut case = Case::new(vec![]);
    case.knobs = knobs;
    case.sched_seed = rng.next_u64();
    let mut composed = false;
    if rng.chance(1, 3) {
        let (plan, _) = pick_gc_plan(&mut rng, 2500);
        case.gc = plan;
        case.between_forms_gc = rng.chance(1, 2);
        composed = true;
    }
    if rng.chance(1, 5) {
        case.slices = SlicePlan::Random(1, 80);
        composed = true;
    }
    let mut opcount = BTreeMap::new();
    for o in &ops {
        *opcount.entry(*o).or_insert(0) += 1;
    }
    let mut res = RunResult {
        violation: None,
        key: fnv64(text.join("\n").as_bytes()),
        nontrivial: width_changes > 0,
        discarded: None,
        forms: 0,
        ops: opcount,
        instrs: 0,
        sample: None,
        composed,
    };
    match evaluate(&forms, &case, false) {
        EvalOut::Ok { compared, discarded, instrs, .. } => {
            res.forms = compared as u64;
            res.discarded = discarded;
            res.instrs = instrs;
            if run < 2 {
                res.sample = Some(json!({"session": text}));
            }
        }
        EvalOut::Discarded(w) => res.discarded = Some(w.to_string()),
        EvalOut::Violation { class, detail } => {
            res.violation = Some(make_violation("C15", run, &forms, &case, class, detail, false));
        }
    }
    res
}

pub fn run(tier: Tier, seed: u64, ev: &mut Evidence) -> Vec<Violation> {
    let n = match tier {
        Tier::Quick => 30_000u64,
        Tier::Thorough => 300_000u64,
    };
    ev.rule = "operation sequences (4-10 operations, every third one a unique-marker string-set! through some alias) over five mutable                strings mixing 1-, 2-, 3- and 4-byte characters (one empty) and a list and a vector holding some of them; operations: string-length                string-ref string-set! substring string-copy (1-3 args) string-fill! (2-4 args) string->list (1-3 args) string->vector vector->string                list->string string make-string string-append (0-3 args) string=? <? >? <=? >=? and -ci variants (2-3 args) string-upcase/-downcase/               -foldcase char->integer integer->char (surrogate range, 0x10FFFF+1, negative, 2^31, 2^63) character predicates, case mapping and                comparisons (cs and ci); indices from {-1,0,1,len-1,len,len+1,2^63} and uniform; after every operation all strings and both holders                are dumped and compared with the Vec<char> reference; collections and slices composed. distinct = session hash; non-trivial = a                mutator replaced a character by one of different UTF-8 width"
        .into();
    let results = par_runs(n, |i| one_run(seed, i));
    let mut distinct = HashSet::new();
    let mut violations = vec![];
    for r in results {
        ev.evaluations += 1;
        ev.count("forms_compared", r.forms);
        ev.count("simulated_instructions", r.instrs);
        if r.composed {
            ev.count("runs_with_collections_or_slices", 1);
        }
        for (k, v) in r.ops {
            ev.count(&format!("op_{}", k), v);
        }
        if let Some(d) = r.discarded {
            ev.count("discarded_unspecified", 1);
            ev.count(&format!("discard_reason: {}", d), 1);
        }
        if r.nontrivial && r.violation.is_none() {
            distinct.insert(r.key);
        }
        if let Some(s) = r.sample {
            if ev.samples.len() < 2 {
                ev.samples.push(s);
            }
        }
        if let Some(v) = r.violation {
            violations.push(v);
        }
    }
    ev.distinct_nontrivial = distinct.len() as u64;
    ev.assumptions.push("case mapping tables are Rust's Unicode tables on both sides (trusted base); -ci comparisons use a palette where lower-casing one character and Unicode simple case folding coincide (ASCII, Latin-1 letters without sharp s, Greek without sigma, Cyrillic, Deseret)".into());
    ev.assumptions.push("identity of strings stored in lists/vectors is observed by unique-marker string-set! probes, never by eq?".into());
    violations
}

pub fn replay(case: &Value) -> Result<Option<Violation>, String> {
    crate::props::c01::replay_as("C15", case)
}

pub fn rerun(_tier: Tier, seed: u64, run: u64) -> Option<Violation> {
    one_run(seed, run).violation
}
