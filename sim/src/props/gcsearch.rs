//! Seeded search over collection schedules, shared by C03 (differential + audit I1/I3/I4),
//! C12 (audit I2 + conservation) and C18 (audit I4).
use crate::audit::AuditReport;
use crate::case::{minimise, Case};
use crate::gen::g01::Options;
use crate::gen::templates;
use crate::kernel::{AuditMode, GcPlan, Outcome};
use crate::props::common::*;
use crate::report::{Evidence, Violation};
use crate::rng::{fnv64, mix, Rng};
use crate::runner::par_runs;
use marwood::vm::verif::GcMode;
use serde_json::{json, Value};
use std::collections::HashSet;

pub const CAP: u64 = 1_500_000;

#[derive(Clone, Copy, PartialEq, Eq)]
pub enum Attribution {
    /// C03: differential + I1, I3, I4
    C03,
    /// C12: I2 (+ conservation part of I3 is reported under C03)
    C12,
    /// C18: I4
    C18,
}

impl Attribution {
    pub fn id(&self) -> &'static str {
        match self {
            Attribution::C03 => "C03",
            Attribution::C12 => "C12",
            Attribution::C18 => "C18",
        }
    }
    fn owns(&self, invariant: &str) -> bool {
        match self {
            Attribution::C03 => matches!(invariant, "I1" | "I3" | "I4"),
            Attribution::C12 => invariant == "I2",
            Attribution::C18 => invariant == "I4",
        }
    }
}

pub struct EvalOk {
    pub gc_forced: u64,
    pub audit_budget_exhausted: bool,
    pub gc_freed_nonzero: u64,
    pub gc_policy_calls: u64,
    pub audits: u64,
    pub contexts: Vec<u64>,
    pub probes: crate::kernel::Probes,
    pub instrs: u64,
    pub foreign_findings: Vec<String>,
    pub nontrivial: bool,
    pub collections: u64,
}

pub enum EvalOut {
    Ok(EvalOk),
    Discarded(&'static str),
    Violation { signature: String, detail: String, fired: Vec<(usize, u64)> },
}

fn audit_signature(attr: Attribution, rep: &AuditReport) -> Option<(String, String)> {
    for f in &rep.findings {
        if attr.owns(f.invariant) {
            // detail class: strip numbers
            let class: String = f
                .detail
                .chars()
                .map(|c| if c.is_ascii_digit() { '#' } else { c })
                .collect();
            return Some((
                format!("{} audit.{} {} {}", attr.id(), f.invariant, f.kind, class),
                format!("cell {}: {} ({})", f.cell, f.detail, f.kind),
            ));
        }
    }
    None
}

pub fn audit_mode_for(case: &Case) -> AuditMode {
    match case.extra.get("audit_every").and_then(|a| a.as_u64()) {
        Some(0) => AuditMode::Off,
        Some(1) | None => AuditMode::Every,
        Some(n) => AuditMode::EveryNth(n),
    }
}

pub fn evaluate(case: &Case, attr: Attribution) -> EvalOut {
    // the scheduled, audited run comes first: an audit finding points at the cause and must not
    // be masked by a baseline that the same defect already broke (ballast collections)
    let run = run_case(
        case,
        &RunOpts {
            mode: GcMode::Normal,
            audit: audit_mode_for(case),
            cap: CAP,
            audit_budget: 600_000_000,
            ..Default::default()
        },
    );
    // audit first: it points at the cause, the differential at the symptom
    let mut foreign = vec![];
    for (form, boundary, rep) in &run.audits {
        if let Some((sig, det)) = audit_signature(attr, rep) {
            return EvalOut::Violation {
                signature: sig,
                detail: format!(
                    "heap audit after the collection at form {} boundary {}: {}\n  sizes: capacity={} allocated={} free={} reachable(precise)={} reachable(conservative)={}",
                    form,
                    if *boundary == u64::MAX { "after".to_string() } else { boundary.to_string() },
                    det,
                    rep.capacity,
                    rep.allocated,
                    rep.free,
                    rep.reachable_precise,
                    rep.reachable_conservative
                ),
                fired: run.fired.clone(),
            };
        }
        for f in &rep.findings {
            foreign.push(format!("{} {} {}", f.invariant, f.kind, f.detail));
        }
    }
    // twin: no collection happens at all
    let mut base_case = case.clone();
    base_case.gc = GcPlan::None;
    base_case.between_forms_gc = false;
    let base = run_case(
        &base_case,
        &RunOpts {
            mode: GcMode::Suppress,
            cap: CAP,
            ..Default::default()
        },
    );
    for o in &base.obs {
        match o.outcome {
            Outcome::Diverged => return EvalOut::Discarded("baseline_diverged"),
            Outcome::Panic(_) => return EvalOut::Discarded("baseline_panic_outside_property"),
            _ => {}
        }
    }
    if attr == Attribution::C03 {
        for (i, (a, b)) in base.obs.iter().zip(run.obs.iter()).enumerate() {
            let class = if matches!(b.outcome, Outcome::Panic(_)) {
                Some("panic-under-collection")
            } else if a.outcome != b.outcome {
                Some("outcome")
            } else if a.output != b.output {
                Some("output")
            } else if a.trace != b.trace {
                Some("stack-trace")
            } else if a.instrs != b.instrs {
                Some("instruction-count")
            } else {
                None
            };
            if let Some(class) = class {
                return EvalOut::Violation {
                    signature: format!("C03 differential {}", class),
                    detail: format!(
                        "form {}: {}\n  no collection: {} output={:?}\n  schedule {}: {} output={:?}\n  collections fired: {}",
                        i,
                        case.forms[i],
                        a.outcome.brief(),
                        a.output.iter().map(|e| e.value.show()).collect::<Vec<_>>(),
                        case.gc.describe(),
                        b.outcome.brief(),
                        b.output.iter().map(|e| e.value.show()).collect::<Vec<_>>(),
                        run.fired.len()
                    ),
                    fired: run.fired.clone(),
                };
            }
        }
    }
    EvalOut::Ok(EvalOk {
        gc_forced: run.gc_forced,
        audit_budget_exhausted: run.audit_budget_exhausted,
        gc_freed_nonzero: run.gc_freed_nonzero,
        gc_policy_calls: run.gc_policy_calls,
        audits: run.audit_count,
        contexts: run.contexts,
        probes: run.probes,
        instrs: run.instructions,
        foreign_findings: foreign,
        nontrivial: run.gc_freed_nonzero > 0,
        collections: run.collections,
    })
}

pub fn pick_gc_plan(rng: &mut Rng, est_instrs: u64) -> (GcPlan, &'static str) {
    // keep the number of collections of one run bounded (~3000): the saturated schedules are
    // confined to short runs
    let min_k = (est_instrs / 3000).max(1);
    match rng.below(10) {
        0 | 1 | 2 => {
            let k = rng.range(1, 16) as u64;
            (GcPlan::EveryK(k.max(min_k)), "every_k")
        }
        3 => (GcPlan::EveryK(min_k), "every_min_k"),
        4 | 5 => {
            let den = *rng.pick(&[2u64, 10, 100]);
            (GcPlan::Bernoulli(1, den.max(min_k)), "bernoulli")
        }
        6 | 7 => {
            if min_k <= 2 {
                (GcPlan::AfterInteresting(1, 2), "after_interesting")
            } else {
                (GcPlan::AfterInteresting(1, min_k), "after_interesting")
            }
        }
        8 => (GcPlan::Policy(rng.range(1, 64) as u64), "policy"),
        _ => (GcPlan::Bernoulli(1, (est_instrs / 3).max(2)), "sparse"),
    }
}

pub struct RunResult {
    pub evals: u64,
    pub nontrivial_keys: Vec<u64>,
    pub discarded: Vec<&'static str>,
    pub violation: Option<Violation>,
    pub ok: Vec<(EvalOk, &'static str)>,
    pub sample: Option<Value>,
    pub workload: String,
}

pub fn make_violation(attr: Attribution, run: u64, case: &Case, sig: String, detail: String) -> Violation {
    let min = minimise(case, &sig, |c| match evaluate(c, attr) {
        EvalOut::Violation { signature, fired, .. } => Some((signature, fired)),
        _ => None,
    });
    let detail = match evaluate(&min, attr) {
        EvalOut::Violation { detail, .. } => detail,
        _ => detail,
    };
    Violation {
        property: attr.id().into(),
        oracle: if sig.contains("audit.") { "heap auditor".into() } else { "differential twin (no collection)".into() },
        signature: sig,
        run,
        case: min.to_json(),
        detail,
    }
}

/// one simulated run: a workload and several schedules over it
pub fn one_run(attr: Attribution, seed: u64, run: u64, workload: fn(&mut Rng) -> (Vec<String>, String), schedules: usize) -> RunResult {
    let mut rng = Rng::new(mix(seed, attr.id(), run));
    let knobs = random_knobs(&mut rng);
    let mut wl = rng.fork();
    let (forms, wl_name) = workload(&mut wl);
    let mut case = Case::new(forms);
    case.knobs = knobs;
    let mut res = RunResult {
        evals: 0,
        nontrivial_keys: vec![],
        discarded: vec![],
        violation: None,
        ok: vec![],
        sample: None,
        workload: wl_name,
    };
    // estimate the instruction count with a plain run
    let est = {
        let base = run_case(
            &case,
            &RunOpts {
                mode: GcMode::Suppress,
                cap: CAP,
                ..Default::default()
            },
        );
        if base.obs.iter().any(|o| matches!(o.outcome, Outcome::Diverged)) {
            res.discarded.push("baseline_diverged");
            return res;
        }
        if base.obs.iter().any(|o| matches!(o.outcome, Outcome::Panic(_))) {
            res.discarded.push("baseline_panic_outside_property");
            return res;
        }
        base.instructions
    };
    let session_hash = fnv64(case.forms.join("\n").as_bytes());
    for _ in 0..schedules {
        let (plan, family) = pick_gc_plan(&mut rng, est);
        case.gc = plan;
        case.between_forms_gc = rng.chance(1, 2);
        case.sched_seed = rng.next_u64();
        // every collection is audited: an unaudited one could corrupt the heap unnoticed;
        // policy schedules get a ballast so that the production utilisation test passes
        case.extra = if matches!(case.gc, GcPlan::Policy(_)) || (family == "sparse" && rng.chance(1, 2)) {
            json!({"audit_every": 1, "ballast": 0.745})
        } else {
            json!({"audit_every": 1})
        };
        res.evals += 1;
        match evaluate(&case, attr) {
            EvalOut::Ok(ok) => {
                if ok.nontrivial {
                    res.nontrivial_keys.push(session_hash ^ fnv64(format!("{:?}{}", case.gc, case.sched_seed).as_bytes()));
                }
                if res.sample.is_none() && run < 4 {
                    res.sample = Some(json!({"workload": res.workload, "session": case.forms, "gc": crate::case::gc_to_json(&case.gc), "between_forms_gc": case.between_forms_gc, "collections": ok.collections}));
                }
                res.ok.push((ok, family));
            }
            EvalOut::Discarded(why) => {
                res.discarded.push(why);
                break;
            }
            EvalOut::Violation { signature, detail, .. } => {
                res.violation = Some(make_violation(attr, run, &case, signature, detail));
                break;
            }
        }
    }
    res
}

pub fn workload_g01(rng: &mut Rng) -> (Vec<String>, String) {
    let opt = Options::default();
    let s = gen_g01_session(rng, &opt);
    let mut forms: Vec<String> = s.forms.iter().map(|f| f.text()).collect();
    forms.push(s.dump.text());
    (forms, "G01".into())
}

pub fn workload_templates(rng: &mut Rng) -> (Vec<String>, String) {
    let (forms, names) = templates::mixed_session(rng);
    (forms, format!("templates:{}", names.join("+")))
}

pub fn workload_deep(rng: &mut Rng) -> (Vec<String>, String) {
    let (forms, names) = crate::gen::templates_deep::deep_session(rng);
    (forms, format!("deep:{}", names.join("+")))
}

pub fn workload_g05(rng: &mut Rng) -> (Vec<String>, String) {
    let g = crate::gen::g05::session(rng);
    (g.forms.iter().map(|f| f.text()).collect(), "G05".into())
}

pub fn workload_g02(rng: &mut Rng) -> (Vec<String>, String) {
    let sk = crate::gen::g02::random_skeleton(rng);
    (sk.render().iter().map(|f| f.text()).collect(), "G02".into())
}

pub fn workload_mixed(rng: &mut Rng) -> (Vec<String>, String) {
    match rng.below(6) {
        0 | 1 => workload_g01(rng),
        2 => workload_g05(rng),
        3 => workload_g02(rng),
        4 => {
            if rng.chance(1, 3) {
                workload_deep(rng)
            } else {
                workload_templates(rng)
            }
        }
        _ => workload_templates(rng),
    }
}

/// run a batch and fold the results into the evidence
pub fn batch(
    attr: Attribution,
    seed: u64,
    n: u64,
    workload: fn(&mut Rng) -> (Vec<String>, String),
    schedules: usize,
    ev: &mut Evidence,
    distinct: &mut HashSet<u64>,
    contexts: &mut HashSet<u64>,
    run_offset: u64,
) -> Vec<Violation> {
    let results = par_runs(n, |i| one_run(attr, seed, run_offset + i, workload, schedules));
    let mut violations = vec![];
    for r in results {
        ev.evaluations += r.evals;
        for k in r.nontrivial_keys {
            distinct.insert(k);
        }
        for d in r.discarded {
            ev.count(&format!("discarded_{}", d), 1);
        }
        let wl_class = r.workload.split(':').next().unwrap_or("").to_string();
        ev.count(&format!("runs_workload_{}", wl_class), 1);
        for (ok, family) in r.ok {
            ev.fault("gc_forced", ok.gc_forced);
            if ok.audit_budget_exhausted {
                ev.count("schedules_truncated_by_audit_budget", 1);
            }
            ev.fault("gc_policy_call", ok.gc_policy_calls);
            ev.fault("gc_freed_nonzero", ok.gc_freed_nonzero);
            ev.count("audits", ok.audits);
            ev.count("simulated_instructions", ok.instrs);
            ev.count(&format!("schedules_{}", family), 1);
            ev.probe("gc_with_live_continuation", ok.probes.gc_with_live_continuation);
            ev.probe("gc_with_sp_over_1000", ok.probes.gc_deep_stack);
            ev.probe("gc_around_vararg", ok.probes.gc_in_vararg);
            ev.probe("heap_grew_at_collection", ok.probes.heap_grew);
            for c in ok.contexts {
                contexts.insert(c);
            }
            for f in ok.foreign_findings.iter().take(1) {
                ev.count("audit_findings_attributed_to_other_property", 1);
                if ev.notes.len() < 5 {
                    ev.notes.push(format!("audit finding outside this property's invariants: {}", f));
                }
            }
        }
        if let Some(s) = r.sample {
            if ev.samples.len() < 4 {
                ev.samples.push(s);
            }
        }
        if let Some(v) = r.violation {
            violations.push(v);
        }
    }
    violations
}

pub fn replay(attr: Attribution, case: &Value) -> Result<Option<Violation>, String> {
    let case = Case::from_json(case)?;
    Ok(match evaluate(&case, attr) {
        EvalOut::Violation { signature, detail, .. } => Some(Violation {
            property: attr.id().into(),
            oracle: if signature.contains("audit.") { "heap auditor".into() } else { "differential twin (no collection)".into() },
            signature,
            run: 0,
            case: case.to_json(),
            detail,
        }),
        _ => None,
    })
}
