//! C12 — memory is bounded by live data (DESIGN §5 C12).
//! Oracle 1: heap audit I2 after every collection of the C03 schedule families.
//! Oracle 2: garbage loops of every allocation kind under the production policy only:
//! the resources held after 10n iterations equal those held after n iterations.
use crate::case::Case;
use crate::kernel::{GcPlan, Knobs, Outcome, Sim, SlicePlan};
use crate::props::gcsearch::{self, Attribution};
use crate::report::{Evidence, Tier, Violation};
use crate::rng::{fnv64, mix, Rng};
use crate::runner::par_runs;
use marwood::vm::verif::GcMode;
use serde_json::{json, Value};
use std::collections::HashSet;

pub const KINDS: [&str; 16] = [
    "pairs",
    "vectors",
    "strings",
    "closures",
    "continuations",
    "eval-code",
    "toplevel-forms",
    "symbols",
    "bignums",
    "promises",
    "eval-fresh-locals",
    "toplevel-fresh-locals",
    "toplevel-redefine",
    "toplevel-redefine-syntax",
    "eval-redefine-syntax",
    "mixed",
];

fn garbage_expr(kind: &str) -> &'static str {
    match kind {
        "pairs" => "(cons i (list i i))",
        "vectors" => "(vector-set! (make-vector 8 i) 0 (vector i))",
        "strings" => "(string-append (make-string 3 #\\a) (number->string i))",
        "closures" => "((let ((c i)) (lambda () (set! c (+ c 1)) c)))",
        "continuations" => "(call/cc (lambda (k) (set! %last-k k) i))",
        "eval-code" => "(eval (list 'let (list (list 'q i)) (list 'lambda '() 'q)))",
        "toplevel-forms" => "(cons i i)",
        "symbols" => "(string->symbol (string-append \"gsym-\" (number->string i)))",
        "bignums" => "(* 99999999999 99999999999 (+ i 1))",
        "promises" => "(force (delay (list i)))",
        // code compiled again and again whose local variable names are new each time
        "eval-fresh-locals" => "(let ((name (string->symbol (string-append \"tmp-\" (number->string i))))) (eval (list (list 'lambda (list name) (list 'cons name name)) i)))",
        "toplevel-fresh-locals" => "(cons i i)",
        "toplevel-redefine" | "toplevel-redefine-syntax" => "(cons i i)",
        // the same keyword defined again and again by code that is compiled each time
        "eval-redefine-syntax" => "(begin (eval (list 'define-syntax 'swap-em (list 'syntax-rules '() (list '(_ a b) (list 'list 'b 'a i))))) (eval '(swap-em 1 2)))",
        _ => "(begin (cons i i) (make-vector 3 i) (string-append \"a\" \"b\") ((lambda (x) (lambda () x)) i) (call/cc (lambda (k) i)) (string->symbol (string-append \"m-\" (number->string i))))",
    }
}

#[derive(Clone, Debug)]
struct LoopCase {
    kind: String,
    live: u64,
    n: u64,
    factor: u64,
    /// number of top-level forms the loop is split into
    forms: u64,
    knobs: Knobs,
    slice_budget: Option<usize>,
    /// shape of the loop's back edge (see `loop_definition`)
    driver: String,
}

pub const DRIVERS: [&str; 13] = ["named-let", "callcc-backedge", "mutual-tail", "apply-tail", "do-nothing-but-builtins", "when-tail", "variadic-tail", "delay-force", "closure-threaded", "eval-tail", "or-and-tail", "cond-case-let-tail", "rebound-builtin-tail"];

/// The loop that runs the garbage expression n times. The back edge differs: a tail call of a
/// named-let procedure; the re-entry of a continuation captured once (no procedure is entered
/// in an iteration unless the garbage expression does so itself); two procedures calling each
/// other in tail position; a tail call through apply; a continuation back edge whose counter
/// lives in a vector (no set! of a global either).
fn loop_definition(driver: &str, garbage: &str) -> Vec<String> {
    match driver {
        "callcc-backedge" => vec![
            "(define i 0)".to_string(),
            "(define %back #f)".to_string(),
            format!(
                "(define (%garbage-loop n) (set! i 0) (call/cc (lambda (c) (set! %back c))) (set! i (+ i 1)) {} (if (< i n) (%back #f) 'done))",
                garbage
            ),
        ],
        "do-nothing-but-builtins" => vec![
            "(define i 0)".to_string(),
            "(define %cell (vector 0 #f))".to_string(),
            format!(
                "(define (%garbage-loop n) (vector-set! %cell 0 0) (vector-set! %cell 1 (call/cc (lambda (c) c)))                  (vector-set! %cell 0 (+ (vector-ref %cell 0) 1)) (set! i (vector-ref %cell 0)) {} (if (< (vector-ref %cell 0) n) ((vector-ref %cell 1) (vector-ref %cell 1)) 'done))",
                garbage
            ),
        ],
        "mutual-tail" => vec![
            format!("(define (%ping i n) (if (< i n) (begin {} (%pong (+ i 1) n)) 'done))", garbage),
            format!("(define (%pong i n) (if (< i n) (begin {} (%ping (+ i 1) n)) 'done))", garbage),
            "(define (%garbage-loop n) (%ping 0 n))".to_string(),
        ],
        // the back edge is the last expression of a one-armed conditional
        "when-tail" => vec![
            format!("(define (%wspin i n) (when (< i n) {} (%wspin (+ i 1) n)))", garbage),
            "(define (%ispin i n) (if (< i n) (%ispin (+ i 1) n)))".to_string(),
            "(define (%garbage-loop n) (%wspin 0 n) (%ispin 0 n) 'done)".to_string(),
        ],
        // the looping procedure has a rest parameter (called with none, one and two optional arguments)
        "variadic-tail" => vec![
            format!(
                "(define (%vspin i n . rest) (if (< i n) (begin {} (if (null? rest) (%vspin (+ i 1) n 'a) (if (null? (cdr rest)) (%vspin (+ i 1) n 'a 'b) (%vspin (+ i 1) n)))) 'done))",
                garbage
            ),
            "(define (%garbage-loop n) (%vspin 0 n))".to_string(),
        ],
        // the loop is a chain of delay-force promises, which force must run in bounded space
        "delay-force" => vec![
            format!("(define (%dstep i n) (delay-force (if (< i n) (begin {} (%dstep (+ i 1) n)) (delay 'done))))", garbage),
            "(define (%garbage-loop n) (force (%dstep 0 n)))".to_string(),
        ],
        // every iteration creates a closure and hands it to the next iteration in a loop variable;
        // the closure's formals have the names of the loop's own variables; only the newest
        // closure is live
        "closure-threaded" => vec![
            format!(
                "(define (%cspin i n f) (if (< i n) (begin {} (%cspin (+ i 1) n (lambda (i n) (+ i n)))) (f 1 2)))",
                garbage
            ),
            format!(
                "(define (%cnamed n) (let loop ((i 0) (f (lambda (i) i))) (if (< i n) (begin {} (loop (+ i 1) (lambda (i) (+ i 1)))) (f 0))))",
                garbage
            ),
            "(define (%garbage-loop n) (%cspin 0 n (lambda (i n) i)) (%cnamed n) 'done)".to_string(),
        ],
        // the back edge is the outermost call of an expression handed to eval in tail position
        "eval-tail" => vec![
            format!("(define (%espin i n) (if (< i n) (begin {} (eval (list '%espin (+ i 1) n))) 'done))", garbage),
            "(define (%garbage-loop n) (%espin 0 n))".to_string(),
        ],
        // the back edge is the last operand of or / and, the last expression of unless (R7RS 3.5:
        // all of them are tail positions when the form is)
        "or-and-tail" => vec![
            format!("(define (%orspin i n) (or (not (< i n)) (begin {} #f) (%orspin (+ i 1) n)))", garbage),
            format!("(define (%andspin i n) (and (< i n) (begin {} #t) (%andspin (+ i 1) n)))", garbage),
            format!("(define (%unlspin i n) (unless (not (< i n)) {} (%unlspin (+ i 1) n)))", garbage),
            "(define (%garbage-loop n) (%orspin 0 n) (%andspin 0 n) (%unlspin 0 n) 'done)".to_string(),
        ],
        // ... the last expression of a cond clause, of an else clause, of a case clause, and the
        // body of let* / letrec
        "cond-case-let-tail" => vec![
            format!("(define (%condspin i n) (cond ((not (< i n)) 'done) ((odd? i) {} (%condspin (+ i 1) n)) (else (%condspin (+ i 1) n))))", garbage),
            format!("(define (%casespin i n) (case (if (< i n) 'go 'stop) ((go on) {} (%casespin (+ i 1) n)) (else 'done)))", garbage),
            format!("(define (%letspin i n) (let* ((j (+ i 1)) (m n)) (letrec ((more (lambda () (< i m)))) (if (more) (begin {} (%letspin j m)) 'done))))", garbage),
            "(define (%garbage-loop n) (%condspin 0 n) (%casespin 0 n) (%letspin 0 n) 'done)".to_string(),
        ],
        // the loop runs through a call site that was compiled while the operator's name still
        // denoted a built-in procedure; the name is bound to a closure afterwards
        "rebound-builtin-tail" => vec![
            format!("(define (%rspin i n) (if (< i n) (begin {} (truncate (+ i 1) n)) 'done))", garbage),
            "(define (truncate i n) (if (< i n) (%rspin i n) 'done))".to_string(),
            "(define (%garbage-loop n) (%rspin 0 n))".to_string(),
        ],
        "apply-tail" => vec![
            format!("(define (%spin i n) (if (< i n) (begin {} (apply %spin (+ i 1) (list n))) 'done))", garbage),
            "(define (%garbage-loop n) (%spin 0 n))".to_string(),
        ],
        _ => vec![format!(
            "(define (%garbage-loop n) (let loop ((i 0)) (if (< i n) (begin {} (loop (+ i 1))) 'done)))",
            garbage
        )],
    }
}

impl LoopCase {
    fn to_json(&self) -> Value {
        json!({
            "loop": {
                "kind": self.kind, "live": self.live, "n": self.n, "factor": self.factor, "forms": self.forms,
                "slice_budget": self.slice_budget, "driver": self.driver,
                "knobs": {"slot_order_seed": self.knobs.slot_order_seed, "heap_chunk": self.knobs.heap_chunk}
            }
        })
    }
    fn from_json(v: &Value) -> Option<LoopCase> {
        let l = v.get("loop")?;
        Some(LoopCase {
            kind: l["kind"].as_str()?.to_string(),
            live: l["live"].as_u64()?,
            n: l["n"].as_u64()?,
            factor: l["factor"].as_u64().unwrap_or(10),
            forms: l["forms"].as_u64().unwrap_or(1),
            slice_budget: l["slice_budget"].as_u64().map(|b| b as usize),
            driver: l["driver"].as_str().unwrap_or("named-let").to_string(),
            knobs: Knobs {
                slot_order_seed: l["knobs"]["slot_order_seed"].as_u64().unwrap_or(0),
                heap_chunk: l["knobs"]["heap_chunk"].as_u64().unwrap_or(8192) as usize,
            },
        })
    }
}

#[derive(Clone, Debug, PartialEq, Eq)]
struct Resources {
    heap_capacity: usize,
    stack_capacity: usize,
    used_after_collection: usize,
    symbols_after_collection: usize,
    global_slots: usize,
}

struct LoopRun {
    res: Resources,
    policy_collections: u64,
    freed_nonzero: bool,
    instrs: u64,
    /// the run was stopped because heap or stack passed the simulator's memory ceiling
    ceiling_hit: bool,
}

fn run_loop(c: &LoopCase, iterations: u64) -> Result<LoopRun, String> {
    let slices = match c.slice_budget {
        Some(b) => SlicePlan::Constant(b),
        None => SlicePlan::None,
    };
    let mut sim = Sim::new(&c.knobs, GcPlan::None, slices, 1);
    sim.instr_cap = 2_000_000_000;
    sim.set_gc_mode(GcMode::Normal);
    // the loops are tail loops over a bounded live set: far below these ceilings when memory is
    // bounded. (A continuation copies the stack, so a growing stack is quadratic in memory.)
    sim.ctl.borrow_mut().stack_ceiling = 20_000;
    sim.ctl.borrow_mut().mem_ceiling = 2_000_000;
    let mut setup = vec![
        "(define %last-k #f)".to_string(),
        "(define (%mk n) (let loop ((i 0) (acc '())) (if (< i n) (loop (+ i 1) (cons (vector i (number->string i)) acc)) acc)))".to_string(),
        format!("(define %live (%mk {}))", c.live),
    ];
    setup.extend(loop_definition(&c.driver, garbage_expr(&c.kind)));
    // warm-up: global names the loop introduces exist before measuring
    setup.push("(%garbage-loop 2)".to_string());
    for f in &setup {
        let o = sim.eval_form(f);
        if !matches!(o.outcome, Outcome::Value(_)) {
            return Err(format!("setup form failed: {} -> {}", f, o.outcome.brief()));
        }
    }
    let before = sim.vm.verif_state().collections;
    if c.kind.starts_with("toplevel-") {
        // the garbage is the code of successive top-level evaluations
        for i in 0..iterations {
            let text = if c.kind == "toplevel-forms" {
                format!("(cons {} {})", i, i)
            } else if c.kind == "toplevel-redefine" {
                // a global variable and a global procedure defined again and again
                format!("(begin (define redef-v (list {i})) (define (redef-p x) (+ x {i})) (redef-p (car redef-v)))", i = i)
            } else if c.kind == "toplevel-redefine-syntax" {
                // (the use is a form of its own: a keyword is known to the expander only after the
                // form that defines it has been evaluated)
                let o = sim.eval_form(&format!("(define-syntax redef-m (syntax-rules () ((_ a) (list a {i}))))", i = i));
                if !matches!(o.outcome, Outcome::Value(_)) {
                    return Err(format!("form failed: {}", o.outcome.brief()));
                }
                "(redef-m 1)".to_string()
            } else {
                format!("((lambda (loc{i} . rest{i}) (let ((in{i} loc{i})) (cons in{i} rest{i}))) {i})", i = i)
            };
            let o = sim.eval_form(&text);
            if !matches!(o.outcome, Outcome::Value(_)) {
                return Err(format!("form failed: {}", o.outcome.brief()));
            }
        }
    } else {
        let per = (iterations / c.forms).max(1);
        for _ in 0..c.forms {
            let o = sim.eval_form(&format!("(%garbage-loop {})", per));
            if sim.ctl.borrow().ceiling_hit {
                break;
            }
            if !matches!(o.outcome, Outcome::Value(_)) {
                return Err(format!("loop failed: {}", o.outcome.brief()));
            }
        }
    }
    let ceiling_hit = sim.ctl.borrow().ceiling_hit;
    if !ceiling_hit {
        let o = sim.eval_form("(length %live)");
        if !matches!(o.outcome, Outcome::Value(_)) {
            return Err(format!("live set unreadable: {}", o.outcome.brief()));
        }
    }
    let policy_collections = sim.vm.verif_state().collections - before;
    let freed_nonzero = sim.ctl.borrow().gc_freed_nonzero > 0;
    let heap_capacity = sim.vm.verif_heap().capacity();
    let stack_capacity = sim.vm.verif_stack().len();
    // resources that must not depend on the work done, measured right after a collection
    if !ceiling_hit {
        sim.vm.verif_collect();
    }
    let used = sim.vm.verif_heap().used_size();
    let symbols = sim.vm.verif_heap().verif_symbol_table().len();
    let global_slots = sim.vm.verif_globenv().iter_slots().count();
    Ok(LoopRun {
        res: Resources {
            heap_capacity,
            stack_capacity,
            used_after_collection: used,
            symbols_after_collection: symbols,
            global_slots,
        },
        policy_collections,
        freed_nonzero,
        instrs: sim.vm.verif_state().instructions,
        ceiling_hit,
    })
}

struct LoopEval {
    violation: Option<(String, String)>,
    nontrivial: bool,
    policy_collections: u64,
    instrs: u64,
    error: Option<String>,
}

fn eval_loop(c: &LoopCase) -> LoopEval {
    let a = run_loop(c, c.n);
    let b = run_loop(c, c.n * c.factor);
    match (a, b) {
        (Ok(a), Ok(b)) => {
            if std::env::var("VERIF_C12_PRINT").is_ok() {
                eprintln!("n={} {:?} collections={}\nn*{}={:?} collections={}", c.n, a.res, a.policy_collections, c.factor, b.res, b.policy_collections);
            }
            let mut v = None;
            if b.ceiling_hit && !a.ceiling_hit {
                v = Some((
                    format!("C12 growth memory-ceiling kind={} driver={}", c.kind, c.driver),
                    format!(
                        "garbage loop kind={} driver={} live={} forms={} slice={:?} chunk={}: after n={} iterations {:?}; at {}n the run was stopped at the simulator's memory ceiling: {:?}",
                        c.kind, c.driver, c.live, c.forms, c.slice_budget, c.knobs.heap_chunk, c.n, a.res, c.factor, b.res
                    ),
                ));
            }
            let fields = [
                ("heap-capacity", a.res.heap_capacity, b.res.heap_capacity),
                ("stack-capacity", a.res.stack_capacity, b.res.stack_capacity),
                ("cells-in-use-after-collection", a.res.used_after_collection, b.res.used_after_collection),
                ("interned-symbols-after-collection", a.res.symbols_after_collection, b.res.symbols_after_collection),
                ("global-slots", a.res.global_slots, b.res.global_slots),
            ];
            for (name, x, y) in fields {
                if v.is_some() {
                    break;
                }
                // capacities have a warm-up that depends on the collection cadence (the heap grows
                // when the free list runs dry between two collection points): one growth step
                // between n and 10n is not yet "keeps growing"; only if the capacity grows again
                // between 10n and 30n is the heap not bounded. The other resources are exact.
                let warmup_sensitive = name == "heap-capacity" || name == "stack-capacity";
                let mut third = None;
                if y > x && warmup_sensitive {
                    match run_loop(c, c.n * c.factor * 3) {
                        Ok(t) => {
                            let z = if name == "heap-capacity" { t.res.heap_capacity } else { t.res.stack_capacity };
                            if z <= y {
                                continue;
                            }
                            third = Some(z);
                        }
                        Err(_) => continue,
                    }
                }
                if y > x {
                    let _ = third;
                    v = Some((
                        format!("C12 growth {} kind={} driver={}", name, c.kind, c.driver),
                        format!(
                            "garbage loop kind={} driver={} live={} forms={} slice={:?} chunk={}: {} after n={} iterations: {}, after {}n: {}\n  n: {:?}\n  {}n: {:?}",
                            c.kind, c.driver, c.live, c.forms, c.slice_budget, c.knobs.heap_chunk, name, c.n, x, c.factor, y, a.res, c.factor, b.res
                        ),
                    ));
                    break;
                }
            }
            LoopEval {
                violation: v,
                nontrivial: b.freed_nonzero && b.policy_collections > 0,
                policy_collections: a.policy_collections + b.policy_collections,
                instrs: a.instrs + b.instrs,
                error: None,
            }
        }
        (Err(e), _) | (_, Err(e)) => LoopEval {
            violation: None,
            nontrivial: false,
            policy_collections: 0,
            instrs: 0,
            error: Some(e),
        },
    }
}

pub fn run(tier: Tier, seed: u64, ev: &mut Evidence) -> Vec<Violation> {
    let (n_sched, loop_ns): (u64, Vec<u64>) = match tier {
        Tier::Quick => (500, vec![3_000, 10_000]),
        Tier::Thorough => (20_000, vec![10_000, 100_000]),
    };
    ev.rule = "oracle 1: C03 workloads and collection schedules with heap audit I2 (every Allocated cell reachable from the roots) after every \
               collection, forced or production; oracle 2: garbage loops, one per allocation kind (pairs, vectors, strings, closures, \
               continuations, eval code, successive top-level forms, unique interned symbols, bignums, promises, mixed) x live set {0,10,1000} \
               x split into 1..50 forms x optional slicing x initial chunk knob, production policy only; heap capacity, stack capacity, cells in use \
               and interned symbols after a final collection, and global slots after 10n iterations must not exceed those after n. distinct = \
               (workload, schedule) or loop-case hash; non-trivial = a collection freed cells during the run"
        .into();
    let mut distinct = HashSet::new();
    let mut contexts = HashSet::new();
    // oracle 2 runs first: its cases are stopped early at a low memory ceiling, so that a VM that
    // grows without bound is reported by them as growth; under the audited workloads of oracle 1 the
    // same defect only makes every collection and audit slower, up to the run watchdog
    let mut violations = vec![];
    let mut cases = vec![];
    let mut rng = Rng::new(mix(seed, "C12-loops", 0));
    for n in &loop_ns {
        for kind in KINDS.iter() {
            for live in [0u64, 10, 1000, 3000] {
                let forms = *rng.pick(&[1u64, 1, 2, 7, 50]);
                let chunk = *rng.pick(&[8192usize, 8192, 4096, 16384, 2048]);
                let slice_budget = if rng.chance(1, 3) { Some(rng.range(50, 5000) as usize) } else { None };
                let n = if kind.starts_with("toplevel-") || kind.starts_with("eval-") { (*n / 4).max(500) } else { *n };
                cases.push(LoopCase {
                    kind: kind.to_string(),
                    live,
                    n,
                    factor: 10,
                    forms,
                    knobs: Knobs {
                        slot_order_seed: 0,
                        heap_chunk: chunk,
                    },
                    slice_budget,
                    driver: "named-let".to_string(),
                });
            }
        }
        // every other back-edge shape, for the kinds whose garbage expression enters no procedure
        // and for two that do
        for driver in DRIVERS.iter().skip(1) {
            for kind in ["pairs", "vectors", "strings", "symbols", "bignums", "closures", "continuations"] {
                let chunk = *rng.pick(&[8192usize, 8192, 4096, 16384, 2048]);
                let slice_budget = if rng.chance(1, 4) { Some(rng.range(9000, 50000) as usize) } else { None };
                cases.push(LoopCase {
                    kind: kind.to_string(),
                    live: *rng.pick(&[0u64, 10, 1000, 3000]),
                    n: if *driver == "eval-tail" { (*n / 4).max(500) } else if *driver == "or-and-tail" || *driver == "cond-case-let-tail" { (*n / 2).max(500) } else { *n },
                    factor: 10,
                    forms: *rng.pick(&[1u64, 1, 3]),
                    knobs: Knobs { slot_order_seed: 0, heap_chunk: chunk },
                    slice_budget,
                    driver: driver.to_string(),
                });
            }
        }
    }
    let results = par_runs(cases.len() as u64, |i| eval_loop(&cases[i as usize]));
    for (i, r) in results.into_iter().enumerate() {
        ev.evaluations += 1;
        ev.count("garbage_loop_cases", 1);
        ev.fault("gc_policy", r.policy_collections);
        ev.count("simulated_instructions", r.instrs);
        if r.nontrivial {
            distinct.insert(fnv64(format!("{:?}", cases[i]).as_bytes()));
        }
        if let Some(e) = r.error {
            ev.notes.push(format!("loop case skipped: {}", e));
            ev.count("garbage_loop_cases_skipped", 1);
        }
        if ev.samples.len() < 6 && i % 13 == 0 {
            ev.samples.push(cases[i].to_json());
        }
        if let Some((sig, detail)) = r.violation {
            violations.push(Violation {
                property: "C12".into(),
                oracle: "resource monitor n vs 10n".into(),
                signature: sig,
                run: 2_000_000 + i as u64,
                case: cases[i].to_json(),
                detail,
            });
        }
    }
    if violations.is_empty() {
        violations = gcsearch::batch(Attribution::C12, seed, n_sched, gcsearch::workload_mixed, 2, ev, &mut distinct, &mut contexts, 0);
    } else {
        ev.notes.push("oracle 1 (audited workloads) not run: the garbage loops of oracle 2 already report growth".into());
    }
    ev.distinct_nontrivial = distinct.len() as u64;
    ev.extra.insert("garbage_kinds".into(), json!(KINDS));
    ev.extra.insert("loop_drivers".into(), json!(DRIVERS));
    ev.extra.insert("loop_iteration_counts".into(), json!(loop_ns));
    ev.assumptions.push("'bounded by live data' is decided as: no monitored resource is larger after 10n iterations than after n (n past warm-up)".into());
    violations
}

pub fn replay(case: &Value) -> Result<Option<Violation>, String> {
    if let Some(lc) = LoopCase::from_json(case) {
        let r = eval_loop(&lc);
        if let Some(e) = r.error {
            return Err(e);
        }
        return Ok(r.violation.map(|(sig, detail)| Violation {
            property: "C12".into(),
            oracle: "resource monitor n vs 10n".into(),
            signature: sig,
            run: 0,
            case: lc.to_json(),
            detail,
        }));
    }
    let _ = Case::from_json(case)?;
    gcsearch::replay(Attribution::C12, case)
}

pub fn rerun(_tier: Tier, seed: u64, run: u64) -> Option<Violation> {
    if run >= 2_000_000 {
        return None;
    }
    gcsearch::one_run(Attribution::C12, seed, run, gcsearch::workload_mixed, 2).violation
}
