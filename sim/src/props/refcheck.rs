//! Refinement check of a session against the reference machine, form by form
//! (shared by C01, C02, C05, C07), and a generic S-expression shrinker.
use crate::case::Case;
use crate::kernel::{ErrClass, Obs, OutEvent, Outcome};
use crate::props::common::*;
use crate::refscheme::machine::{Machine, RefObs, RefOutcome};
use crate::sx::Sx;
use marwood::vm::verif::GcMode;

pub struct CmpOk {
    pub ref_outcomes: Vec<RefOutcome>,
    pub compared: usize,
    pub discarded_at: Option<(usize, String)>,
    pub instrs: u64,
    pub ref_steps: u64,
    pub errors_agreed: usize,
    pub reentries: u64,
    pub cont_invocations: u64,
    pub run: Option<RunOut>,
}

pub struct CmpViolation {
    pub form: usize,
    pub class: String,
    pub detail: String,
    pub fired: Vec<(usize, u64)>,
}

pub enum Cmp {
    Ok(CmpOk),
    Violation(CmpViolation),
    /// the implementation hit the harness instruction cap or similar: not comparable
    Discarded(&'static str),
}

fn outputs_match(a: &[OutEvent], b: &[OutEvent]) -> bool {
    a.len() == b.len() && a.iter().zip(b.iter()).all(|(x, y)| x.write == y.write && x.value.matches(&y.value))
}

fn show_out(o: &[OutEvent]) -> String {
    format!("{:?}", o.iter().map(|e| format!("{}{}", if e.write { "w:" } else { "d:" }, e.value.show())).collect::<Vec<_>>())
}

/// compare one form's observation with the reference's; None = agree
pub fn compare_form(r: &RefObs, o: &Obs) -> Option<String> {
    match (&r.outcome, &o.outcome) {
        (RefOutcome::Discard(_), _) => None,
        (_, Outcome::Panic(_)) => Some("panic".into()),
        (_, Outcome::Stalled) => Some("stalled".into()),
        (RefOutcome::Value(rv), Outcome::Value(mv)) => {
            if !rv.matches(mv) {
                Some("value".into())
            } else if !outputs_match(&r.output, &o.output) {
                Some("output".into())
            } else {
                None
            }
        }
        (RefOutcome::Error(kind, payload), Outcome::Error(class, _, mp)) => {
            if *kind == "user" {
                if *class != ErrClass::User {
                    return Some("user-error-vs-other-failure".into());
                }
                let p = payload.clone().unwrap_or_default();
                let m = mp.clone().unwrap_or_default();
                if p.len() != m.len() || !p.iter().zip(m.iter()).all(|(a, b)| a.matches(b)) {
                    return Some("error-payload".into());
                }
            }
            if !outputs_match(&r.output, &o.output) {
                Some("output-before-failure".into())
            } else {
                None
            }
        }
        (RefOutcome::Value(_), Outcome::Error(_, _, _)) => Some("failure-where-value-prescribed".into()),
        (RefOutcome::Error(_, _), Outcome::Value(_)) => Some("value-where-failure-prescribed".into()),
        (_, Outcome::Diverged) => None,
    }
}

pub struct CmpOpts {
    pub mode: GcMode,
    pub cap: u64,
    pub ref_step_limit: u64,
    pub keep_run: bool,
}

impl Default for CmpOpts {
    fn default() -> Self {
        CmpOpts {
            mode: GcMode::Normal,
            cap: 400_000,
            ref_step_limit: 300_000,
            keep_run: false,
        }
    }
}

/// Run `forms` in the reference machine and (as text, under the case's knobs and schedule) in the VM.
/// `judged[i] == false` marks forms whose observation is not compared (junk, set-up).
pub fn compare_session(forms: &[Sx], judged: &[bool], case_template: &Case, opts: &CmpOpts) -> Cmp {
    compare_session_texts(forms, None, judged, case_template, opts)
}

/// `vm_texts`: the texts given to the implementation when they differ from the reference's
/// forms (fault injection: the reference evaluates a marker at the fault site).
pub fn compare_session_texts(forms: &[Sx], vm_texts: Option<&[String]>, judged: &[bool], case_template: &Case, opts: &CmpOpts) -> Cmp {
    let mut machine = Machine::new();
    machine.step_limit = opts.ref_step_limit;
    let mut refs: Vec<RefObs> = vec![];
    let mut discarded_at = None;
    for (i, f) in forms.iter().enumerate() {
        let r = machine.run_form(f);
        if let RefOutcome::Discard(why) = &r.outcome {
            discarded_at = Some((i, why.clone()));
            refs.push(r);
            break;
        }
        refs.push(r);
    }
    let usable = match &discarded_at {
        Some((i, _)) => *i,
        None => forms.len(),
    };
    let mut case = case_template.clone();
    case.forms = match vm_texts {
        Some(t) => t[..usable].to_vec(),
        None => forms[..usable].iter().map(|f| f.text()).collect(),
    };
    // composed collection schedules are audited: a corrupted heap stops the run (reported as a
    // panic of that form) before the corruption can abort the host
    let audit = if matches!(case.gc, crate::kernel::GcPlan::None) { crate::kernel::AuditMode::Off } else { crate::kernel::AuditMode::EveryNth(3) };
    let run = run_case(
        &case,
        &RunOpts {
            mode: opts.mode,
            cap: opts.cap,
            audit,
            ..Default::default()
        },
    );
    let mut errors_agreed = 0;
    for i in 0..usable {
        let o = &run.obs[i];
        if matches!(o.outcome, Outcome::Diverged) {
            return Cmp::Discarded("implementation_hit_instruction_cap");
        }
        if !judged.get(i).cloned().unwrap_or(true) {
            if matches!(o.outcome, Outcome::Panic(_)) {
                // a panic in an unjudged form still ends the run
                return Cmp::Discarded("panic_in_unjudged_form");
            }
            continue;
        }
        if let Some(class) = compare_form(&refs[i], o) {
            return Cmp::Violation(CmpViolation {
                form: i,
                class,
                detail: format!(
                    "form {}: {}\n  reference: {:?} output={}\n  marwood:   {} output={}",
                    i,
                    case.forms[i],
                    refs[i].outcome,
                    show_out(&refs[i].output),
                    o.outcome.brief(),
                    show_out(&o.output)
                ),
                fired: run.fired.clone(),
            });
        }
        if matches!(refs[i].outcome, RefOutcome::Error(_, _)) {
            errors_agreed += 1;
        }
    }
    Cmp::Ok(CmpOk {
        ref_outcomes: refs.iter().map(|r| r.outcome.clone()).collect(),
        compared: usable,
        discarded_at,
        instrs: run.instructions,
        ref_steps: machine.steps,
        errors_agreed,
        reentries: machine.reentries,
        cont_invocations: machine.cont_invocations,
        run: if opts.keep_run { Some(run) } else { None },
    })
}

// ---------------------------------------------------------------------------
// shrinking
// ---------------------------------------------------------------------------

/// all one-step simplifications of a datum, most aggressive first
pub fn shrink_candidates(x: &Sx) -> Vec<Sx> {
    let mut out = vec![];
    match x {
        Sx::List(items) if !items.is_empty() => {
            // replace by a child
            for it in items.iter().skip(1) {
                out.push(it.clone());
            }
            // replace by constants
            out.push(Sx::Int(0));
            out.push(Sx::Bool(true));
            // drop one element (not the head)
            for i in 1..items.len() {
                let mut v = items.clone();
                v.remove(i);
                out.push(Sx::List(v));
            }
            // shrink a child in place
            for i in 0..items.len() {
                for c in shrink_candidates(&items[i]) {
                    let mut v = items.clone();
                    v[i] = c;
                    out.push(Sx::List(v));
                }
            }
        }
        Sx::Dotted(items, tail) => {
            out.push(Sx::List(items.clone()));
            for i in 0..items.len() {
                for c in shrink_candidates(&items[i]) {
                    let mut v = items.clone();
                    v[i] = c;
                    out.push(Sx::Dotted(v, tail.clone()));
                }
            }
        }
        Sx::Vector(items) => {
            for i in 0..items.len() {
                let mut v = items.clone();
                v.remove(i);
                out.push(Sx::Vector(v));
            }
            for i in 0..items.len() {
                for c in shrink_candidates(&items[i]) {
                    let mut v = items.clone();
                    v[i] = c;
                    out.push(Sx::Vector(v));
                }
            }
        }
        Sx::Int(i) if *i != 0 => {
            out.push(Sx::Int(0));
            if i.abs() > 1 {
                out.push(Sx::Int(i / 2));
                out.push(Sx::Int(1));
            }
        }
        Sx::Str(s) if !s.is_empty() => out.push(Sx::Str(String::new())),
        _ => {}
    }
    out
}

/// Greedy shrinking of a session: drop forms, then simplify expressions, while `fails` holds.
pub fn shrink_session<F: FnMut(&[Sx]) -> bool>(forms: &[Sx], mut fails: F, budget: usize) -> Vec<Sx> {
    let mut cur: Vec<Sx> = forms.to_vec();
    if !crate::report::minimise_on() {
        return cur;
    }
    let mut tests = 0usize;
    // drop forms
    let mut i = 0;
    while i < cur.len() && cur.len() > 1 && tests < budget {
        let mut cand = cur.clone();
        cand.remove(i);
        tests += 1;
        if fails(&cand) {
            cur = cand;
        } else {
            i += 1;
        }
    }
    // simplify expressions
    let mut progress = true;
    while progress && tests < budget {
        progress = false;
        'outer: for fi in 0..cur.len() {
            let cands = shrink_candidates(&cur[fi]);
            for c in cands {
                if c.size() >= cur[fi].size() {
                    continue;
                }
                tests += 1;
                if tests >= budget {
                    break 'outer;
                }
                let mut cand = cur.clone();
                cand[fi] = c;
                if fails(&cand) {
                    cur = cand;
                    progress = true;
                    break 'outer;
                }
            }
        }
    }
    cur
}

const KNOWN_HEADS: &[&str] = &[
    "define", "lambda", "if", "quote", "quasiquote", "unquote", "set!", "let", "let*", "letrec", "begin", "cond", "case", "and",
    "or", "when", "unless", "delay", "force", "apply", "eval", "map", "for-each", "call/cc", "list", "cons", "car", "cdr",
    "vector", "make-vector", "vector-ref", "vector-set!", "set-car!", "append", "reverse", "length", "display", "write", "error",
    "else", "=>", "memv", "equal?", "eq?", "eqv?", "list->vector", "vector->list", "vector-length", "string-length", "not",
    "set-cdr!", "list-tail", "list-ref", "memq", "member", "assq", "assv", "assoc", "list?", "vector-fill!", "vector-copy",
    "vector-copy!", "string-ref", "string-set!", "substring", "string-copy", "string-fill!", "string->list", "string->vector",
    "vector->string", "list->string", "string", "make-string", "string-append", "string-upcase", "string-downcase",
    "string-foldcase", "char->integer", "integer->char", "char-upcase", "char-downcase", "char-foldcase", "string=?", "string<?",
    "string-ci=?", "char=?", "char<?", "char-ci=?", "char-alphabetic?", "char-numeric?", "char-whitespace?", "digit-value",
];

/// sorted set of known keywords / procedures occurring anywhere in the forms
pub fn heads_signature(forms: &[Sx]) -> String {
    fn walk(x: &Sx, acc: &mut Vec<&'static str>) {
        match x {
            Sx::Sym(s) => {
                if let Some(k) = KNOWN_HEADS.iter().find(|k| **k == s.as_str()) {
                    if !acc.contains(k) {
                        acc.push(k);
                    }
                }
            }
            Sx::List(v) | Sx::Vector(v) => v.iter().for_each(|i| walk(i, acc)),
            Sx::Dotted(v, t) => {
                v.iter().for_each(|i| walk(i, acc));
                walk(t, acc);
            }
            _ => {}
        }
    }
    let mut acc = vec![];
    for f in forms {
        walk(f, &mut acc);
    }
    acc.sort();
    acc.join(",")
}
