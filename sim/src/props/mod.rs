//! Property checks and the shared finishing protocol (minimised replay, fresh-process
//! confirmation, known findings).
pub mod c01;
pub mod c02;
pub mod c03;
pub mod c04;
pub mod c05;
pub mod c07;
pub mod c11;
pub mod c12;
pub mod c13;
pub mod c14;
pub mod c15;
pub mod c18;
pub mod c19;
pub mod common;
pub mod gcsearch;
pub mod refcheck;

use crate::report::{known_for, load_known_findings, read_json, verif_dir, write_replay, Evidence, Tier, Verdict, Violation};
use serde_json::Value;
use std::path::Path;

pub struct PropertyDef {
    pub id: &'static str,
    pub run: fn(Tier, u64, &mut Evidence) -> Vec<Violation>,
    /// re-execute a replay case; Some(violation) if it still violates
    pub replay: fn(&Value) -> Result<Option<Violation>, String>,
    pub level: &'static str,
    /// re-execute one run of the batch with minimisation enabled (phase 2)
    pub rerun: Option<fn(Tier, u64, u64) -> Option<Violation>>,
}

pub fn registry() -> Vec<PropertyDef> {
    vec![
        PropertyDef { id: "C01", run: c01::run, replay: c01::replay, level: "exploration", rerun: Some(c01::rerun) },
        PropertyDef { id: "C02", run: c02::run, replay: c02::replay, level: "exploration", rerun: Some(c02::rerun) },
        PropertyDef { id: "C03", run: c03::run, replay: c03::replay, level: "exploration", rerun: Some(c03::rerun) },
        PropertyDef { id: "C04", run: c04::run, replay: c04::replay, level: "exploration", rerun: Some(c04::rerun) },
        PropertyDef { id: "C05", run: c05::run, replay: c05::replay, level: "exploration", rerun: Some(c05::rerun) },
        PropertyDef { id: "C07", run: c07::run, replay: c07::replay, level: "fault_enumeration", rerun: Some(c07::rerun) },
        PropertyDef { id: "C11", run: c11::run, replay: c11::replay, level: "fault_enumeration", rerun: None },
        PropertyDef { id: "C12", run: c12::run, replay: c12::replay, level: "exploration", rerun: Some(c12::rerun) },
        PropertyDef { id: "C14", run: c14::run, replay: c14::replay, level: "exploration", rerun: Some(c14::rerun) },
        PropertyDef { id: "C15", run: c15::run, replay: c15::replay, level: "exploration", rerun: Some(c15::rerun) },
        PropertyDef { id: "C19", run: c19::run, replay: c19::replay, level: "fault_enumeration", rerun: None },
        PropertyDef { id: "C18", run: c18::run, replay: c18::replay, level: "exploration", rerun: Some(c18::rerun) },
        PropertyDef { id: "C13", run: c13::run, replay: c13::replay, level: "fault_enumeration", rerun: Some(c13::rerun) },
    ]
}

pub fn find(id: &str) -> Option<PropertyDef> {
    registry().into_iter().find(|p| p.id == id)
}

fn signature_matches(known: &str, sig: &str) -> bool {
    known == sig
}

/// Replay a file in this process. Exit code protocol: 0 clean, 1 violation, 2 harness error.
pub fn replay_file(path: &Path) -> i32 {
    let doc = match read_json(path) {
        Ok(d) => d,
        Err(e) => {
            println!("HARNESS-ERROR {}", e);
            return 2;
        }
    };
    let id = doc["property"].as_str().unwrap_or("");
    if doc.get("abort_probe").and_then(|b| b.as_bool()).unwrap_or(false) {
        // the case once aborted the host process: just execute it; if this returns, it is clean
        return match crate::case::Case::from_json(&doc["case"]) {
            Ok(case) => {
                let opts = if doc.get("run_opts").is_some() { common::RunOpts::from_json(&doc["run_opts"]) } else { common::RunOpts::default() };
                let _ = common::run_case(&case, &opts);
                println!("REPLAY-CLEAN property={} replay={}", id, path.display());
                0
            }
            Err(e) => {
                println!("HARNESS-ERROR {}", e);
                2
            }
        };
    }
    let def = match find(id) {
        Some(d) => d,
        None => {
            println!("HARNESS-ERROR unknown property {}", id);
            return 2;
        }
    };
    match (def.replay)(&doc["case"]) {
        Ok(Some(v)) => {
            println!("VIOLATION property={} replay={}", v.property, path.display());
            println!("REPLAY-SIGNATURE {}", v.signature);
            for line in v.detail.lines().take(40) {
                println!("  {}", line);
            }
            1
        }
        Ok(None) => {
            println!("REPLAY-CLEAN property={} replay={}", id, path.display());
            0
        }
        Err(e) => {
            println!("HARNESS-ERROR {}", e);
            2
        }
    }
}

/// Run one property check end to end.
pub fn check(id: &str, tier: Tier, seed: u64) -> i32 {
    let def = match find(id) {
        Some(d) => d,
        None => {
            println!("HARNESS-ERROR unknown property {}", id);
            return 2;
        }
    };
    let mut ev = Evidence::new(id, tier, seed, def.level);
    // phase 1: detect only; phase 2: minimise the first few violating runs
    crate::report::set_minimise(false);
    let raw = (def.run)(tier, seed, &mut ev);
    crate::report::set_minimise(true);
    let mut found = vec![];
    for (i, v) in raw.into_iter().enumerate() {
        if i < 4 {
            if let Some(rerun) = def.rerun {
                if let Some(min) = rerun(tier, seed, v.run) {
                    found.push(min);
                    continue;
                }
            }
        }
        found.push(v);
    }
    let known = known_for(id);
    let mut verdict = Verdict {
        violations: vec![],
        harness_errors: vec![],
    };
    // canaries of known findings
    for k in &known {
        let mut still = false;
        if let Some(canary) = &k.canary {
            let path = verif_dir().join(canary);
            match read_json(&path) {
                Ok(doc) => match (def.replay)(&doc["case"]) {
                    Ok(Some(v)) if signature_matches(&k.signature, &v.signature) => still = true,
                    Ok(Some(v)) => {
                        // the canary now fails differently: that is a new violation
                        let p = write_replay(&v, seed);
                        verdict.violations.push((v, p));
                        continue;
                    }
                    Ok(None) => {}
                    Err(e) => verdict.harness_errors.push(format!("canary {}: {}", canary, e)),
                },
                Err(e) => verdict.harness_errors.push(e),
            }
        } else {
            // no canary file: the entry is confirmed by a violation of this very run
            still = found.iter().any(|v| signature_matches(&k.signature, &v.signature));
        }
        if still {
            println!("KNOWN-FINDING: property={} {} [{}]", id, k.what, k.id);
            ev.known_findings_reported.push(k.id.clone());
        } else {
            let note = format!(
                "known finding {} no longer reproduces from its canary: the entry can be turned into 'fixed'",
                k.id
            );
            println!("NOTE: {}", note);
            ev.notes.push(note);
        }
    }
    // regression canaries of repaired findings: they suppress nothing and must stay clean
    let mut found = found;
    for k in load_known_findings().iter().filter(|k| k.property == id && k.status == "fixed") {
        if let Some(canary) = &k.canary {
            let path = verif_dir().join(canary);
            match read_json(&path) {
                Ok(doc) if doc.get("abort_probe").and_then(|b| b.as_bool()).unwrap_or(false) => {
                    // a case that once aborted the host: execute it in a child process
                    let exe = std::env::current_exe().expect("current_exe");
                    match std::process::Command::new(exe).arg("replay").arg(&path).output() {
                        Ok(o) if o.status.code() == Some(0) => ev.count("fixed_finding_canaries_clean", 1),
                        Ok(o) => found.insert(
                            0,
                            Violation {
                                property: id.to_string(),
                                oracle: "the host process must not be aborted".into(),
                                signature: "host process aborted".into(),
                                run: 0,
                                case: doc["case"].clone(),
                                detail: format!("regression of repaired finding {}: replay exit status {:?}", k.id, o.status.code()),
                            },
                        ),
                        Err(e) => verdict.harness_errors.push(format!("canary {}: {}", canary, e)),
                    }
                }
                Ok(doc) => match (def.replay)(&doc["case"]) {
                    Ok(Some(mut v)) => {
                        v.detail = format!("regression of repaired finding {}\n{}", k.id, v.detail);
                        found.insert(0, v);
                    }
                    Ok(None) => ev.count("fixed_finding_canaries_clean", 1),
                    Err(e) => verdict.harness_errors.push(format!("canary {}: {}", canary, e)),
                },
                Err(e) => verdict.harness_errors.push(e),
            }
        }
    }
    // new violations: dedupe by signature
    let mut seen: Vec<String> = vec![];
    for v in found {
        if known.iter().any(|k| signature_matches(&k.signature, &v.signature)) {
            ev.count("violations_matching_known_findings", 1);
            continue;
        }
        if seen.contains(&v.signature) {
            ev.count("duplicate_violations", 1);
            continue;
        }
        seen.push(v.signature.clone());
        if seen.len() > 3 {
            continue;
        }
        let path = write_replay(&v, seed);
        // confirm in a fresh process
        let exe = std::env::current_exe().expect("current_exe");
        let out = std::process::Command::new(exe).arg("replay").arg(&path).output();
        match out {
            Ok(o) => {
                let text = String::from_utf8_lossy(&o.stdout).to_string();
                let same = text
                    .lines()
                    .any(|l| l.strip_prefix("REPLAY-SIGNATURE ").map(|s| s == v.signature).unwrap_or(false));
                let aborted = v.signature == "host process aborted" && !matches!(o.status.code(), Some(0) | Some(1) | Some(2));
                if (o.status.code() == Some(1) && same) || aborted {
                    verdict.violations.push((v, path));
                } else {
                    verdict.harness_errors.push(format!(
                        "HARNESS-NONDETERMINISM: replay {} did not reproduce signature '{}' in a fresh process (exit {:?})\n{}",
                        path.display(),
                        v.signature,
                        o.status.code(),
                        text
                    ));
                }
            }
            Err(e) => verdict.harness_errors.push(format!("cannot spawn replay: {}", e)),
        }
    }
    ev.violations = verdict.violations.len() as u64;
    ev.write();
    verdict.print();
    println!(
        "{} {} seed={} evaluations={} distinct_nontrivial={} violations={} wall={:.1}s",
        id,
        tier.name(),
        seed,
        ev.evaluations,
        ev.distinct_nontrivial,
        ev.violations,
        ev.start.elapsed().as_secs_f64()
    );
    verdict.exit_code()
}
