//! C01 — evaluation agrees with the language semantics for core and derived forms.
use crate::case::Case;
use crate::gen::g01::Options;
use crate::kernel::{GcPlan, Knobs, Outcome, SlicePlan};
use crate::props::common::*;
use crate::props::gcsearch::pick_gc_plan;
use crate::props::refcheck::*;
use crate::report::{Evidence, Tier, Violation};
use crate::rng::{fnv64, mix, Rng};
use crate::runner::par_runs;
use crate::sx::{read_one, Sx};
use marwood::vm::verif::GcMode;
use serde_json::{json, Value};
use std::collections::HashSet;

fn junk_forms(k: u64) -> Vec<String> {
    vec![
        format!("(define (junk-f{k} x) (let ((y (* x 2))) (lambda () (+ x y))))", k = k),
        format!("(define junk-g{k} (list 1 2 (vector 3 'junk) \"junk\"))", k = k),
        format!("(define junk-k{k} (junk-f{k} {k}))", k = k),
        format!("(junk-k{k})", k = k),
        format!("(define (junk-v{k} . rest) (if (null? rest) 'none (car rest)))", k = k),
    ]
}

pub enum EvalOut {
    Ok { compared: usize, discarded: Option<String>, instrs: u64, errors_agreed: usize, twin_checked: bool },
    Discarded(&'static str),
    Violation { class: String, detail: String },
}

pub fn parse_forms(case: &Case) -> Result<Vec<Sx>, String> {
    case.forms.iter().map(|t| read_one(t)).collect()
}

pub fn evaluate(forms: &[Sx], case: &Case, with_twin: bool) -> EvalOut {
    let judged = vec![true; forms.len()];
    let opts = CmpOpts {
        keep_run: true,
        ..Default::default()
    };
    match compare_session(forms, &judged, case, &opts) {
        Cmp::Discarded(w) => EvalOut::Discarded(w),
        Cmp::Violation(v) => EvalOut::Violation {
            class: v.class,
            detail: v.detail,
        },
        Cmp::Ok(ok) => {
            let mut twin_checked = false;
            if with_twin && ok.compared > 0 {
                // fresh VM, another slot order, unrelated definitions inserted before and between forms
                let mut rng = Rng::new(case.sched_seed ^ 0x7711);
                let mut twin = case.clone();
                twin.knobs = Knobs {
                    slot_order_seed: rng.next_u64() | 1,
                    heap_chunk: case.knobs.heap_chunk,
                };
                twin.gc = GcPlan::None;
                twin.between_forms_gc = false;
                twin.slices = SlicePlan::None;
                let mut texts = vec![];
                let mut map = vec![];
                let mut k = 0;
                for (i, f) in forms[..ok.compared].iter().enumerate() {
                    if i == 0 || rng.chance(1, 3) {
                        texts.extend(junk_forms(k));
                        k += 1;
                    }
                    map.push(texts.len());
                    texts.push(f.text());
                }
                twin.forms = texts;
                let t = run_case(
                    &twin,
                    &RunOpts {
                        mode: GcMode::Normal,
                        cap: 400_000,
                        ..Default::default()
                    },
                );
                let base = ok.run.as_ref().unwrap();
                for (i, pos) in map.iter().enumerate() {
                    let a = &base.obs[i];
                    let b = &t.obs[*pos];
                    if matches!(b.outcome, Outcome::Diverged) {
                        break;
                    }
                    if !a.same_result(b) {
                        return EvalOut::Violation {
                            class: "fresh-vm-twin".into(),
                            detail: format!(
                                "form {}: {}\n  this VM: {}\n  fresh VM with unrelated definitions and slot order {}: {}",
                                i,
                                forms[i].text(),
                                a.outcome.brief(),
                                twin.knobs.slot_order_seed,
                                b.outcome.brief()
                            ),
                        };
                    }
                }
                twin_checked = true;
            }
            EvalOut::Ok {
                compared: ok.compared,
                discarded: ok.discarded_at.map(|(_, w)| w),
                instrs: ok.instrs,
                errors_agreed: ok.errors_agreed,
                twin_checked,
            }
        }
    }
}

pub fn make_violation(property: &str, run: u64, forms: &[Sx], case: &Case, class: String, detail: String, with_twin: bool) -> Violation {
    // shrink while the same discrepancy class persists
    let cls = class.clone();
    // a shrunk form that the reference compiler rejects (malformed derived form) is not fed to
    // the implementation: its macro expander may recurse without bound on such input, which is
    // the subject of other properties and would abort the harness process
    let original: Vec<String> = forms.iter().map(|f| f.text()).collect();
    let min_forms = shrink_session(
        forms,
        |cand| {
            for f in cand {
                if crate::refscheme::ast::compile(f).is_err() && !original.contains(&f.text()) {
                    return false;
                }
            }
            if std::env::var("VERIF_SHRINK_TRACE").is_ok() {
                eprintln!("  try: {}", cand.iter().map(|f| f.text()).collect::<Vec<_>>().join(" "));
            }
            match evaluate(cand, case, with_twin) {
                EvalOut::Violation { class, .. } => class == cls,
                _ => false,
            }
        },
        500,
    );
    // drop the schedule and knobs if they do not matter
    let mut min_case = case.clone();
    for simplify in 0..(if crate::report::minimise_on() { 3 } else { 0 }) {
        let mut c = min_case.clone();
        match simplify {
            0 => {
                c.gc = GcPlan::None;
                c.between_forms_gc = false;
            }
            1 => c.slices = SlicePlan::None,
            _ => c.knobs = Knobs::default(),
        }
        if let EvalOut::Violation { class, .. } = evaluate(&min_forms, &c, with_twin) {
            if class == cls {
                min_case = c;
            }
        }
    }
    let detail = match evaluate(&min_forms, &min_case, with_twin) {
        EvalOut::Violation { detail, .. } => detail,
        _ => detail,
    };
    min_case.forms = min_forms.iter().map(|f| f.text()).collect();
    min_case.extra = json!({"with_twin": with_twin});
    Violation {
        property: property.into(),
        oracle: if cls == "fresh-vm-twin" { "metamorphic twin (fresh VM, junk definitions, slot order)".into() } else { "reference machine".into() },
        signature: format!("{} {} [{}]", property, cls, heads_signature(&min_forms)),
        run,
        case: min_case.to_json(),
        detail,
    }
}

struct RunResult {
    evals: u64,
    forms_compared: u64,
    errors_agreed: u64,
    discarded: Option<String>,
    violation: Option<Violation>,
    nontrivial: bool,
    key: u64,
    instrs: u64,
    sample: Option<Value>,
    twin: bool,
}

fn one_run(seed: u64, run: u64) -> RunResult {
    let mut rng = Rng::new(mix(seed, "C01", run));
    let knobs = random_knobs(&mut rng);
    let opt = Options::default();
    let mut wl = rng.fork();
    let session = gen_g01_session(&mut wl, &opt);
    let mut forms = session.forms.clone();
    forms.push(session.dump.clone());
    let mut case = Case::new(vec![]);
    case.knobs = knobs;
    case.sched_seed = rng.next_u64();
    // composed (not primary): a collection schedule and slicing on some runs
    if rng.chance(1, 4) {
        let (plan, _) = pick_gc_plan(&mut rng, 1500);
        case.gc = plan;
        case.between_forms_gc = rng.chance(1, 2);
    }
    if rng.chance(1, 5) {
        case.slices = SlicePlan::Random(1, 200);
    }
    let with_twin = true;
    let key = fnv64(forms.iter().map(|f| f.text()).collect::<Vec<_>>().join("\n").as_bytes());
    let mut res = RunResult {
        evals: 1,
        forms_compared: 0,
        errors_agreed: 0,
        discarded: None,
        violation: None,
        nontrivial: session.nontrivial,
        key,
        instrs: 0,
        sample: None,
        twin: false,
    };
    match evaluate(&forms, &case, with_twin) {
        EvalOut::Ok {
            compared,
            discarded,
            instrs,
            errors_agreed,
            twin_checked,
        } => {
            res.forms_compared = compared as u64;
            res.errors_agreed = errors_agreed as u64;
            res.discarded = discarded;
            res.instrs = instrs;
            res.twin = twin_checked;
            if run < 3 {
                res.sample = Some(json!({"session": forms.iter().map(|f| f.text()).collect::<Vec<_>>(), "knobs": {"slot_order_seed": case.knobs.slot_order_seed, "heap_chunk": case.knobs.heap_chunk}}));
            }
        }
        EvalOut::Discarded(w) => res.discarded = Some(w.to_string()),
        EvalOut::Violation { class, detail } => {
            res.violation = Some(make_violation("C01", run, &forms, &case, class, detail, with_twin));
        }
    }
    res
}

pub fn run(tier: Tier, seed: u64, ev: &mut Evidence) -> Vec<Violation> {
    let n = match tier {
        Tier::Quick => 20_000u64,
        Tier::Thorough => 300_000u64,
    };
    ev.rule = "G01 typed session generator (3-14 top-level forms: definitions, redefinitions of globals between forms, expressions over \
               all core and derived forms, apply/eval/higher-order use, quasiquote templates, output, a controlled fraction of failing forms) \
               + final dump of data globals; oracle: reference CEK machine form by form (value, failure, user-error payload, output events); \
               metamorphic twin: fresh VM with another closure-slot order and unrelated definitions inserted must observe the same; \
               composed on a fraction of runs: collection schedules and slicing. distinct = session hash; non-trivial = forms interact \
               through a global or closure and a derived form is nested in another"
        .into();
    let results = par_runs(n, |i| one_run(seed, i));
    let mut distinct = HashSet::new();
    let mut violations = vec![];
    for r in results {
        ev.evaluations += r.evals;
        ev.count("forms_compared", r.forms_compared);
        ev.count("failing_forms_agreed", r.errors_agreed);
        ev.count("simulated_instructions", r.instrs);
        if r.twin {
            ev.count("metamorphic_twins_checked", 1);
            ev.fault("slot_order_permutation", 1);
        }
        if let Some(d) = r.discarded {
            let class = if d.starts_with("unspecified") { "discarded_unspecified" } else { "discarded_other" };
            ev.count(class, 1);
            ev.count(&format!("discard_reason: {}", d), 1);
        }
        if r.nontrivial && r.violation.is_none() {
            distinct.insert(r.key);
        }
        if let Some(s) = r.sample {
            if ev.samples.len() < 3 {
                ev.samples.push(s);
            }
        }
        if let Some(v) = r.violation {
            violations.push(v);
        }
    }
    ev.distinct_nontrivial = distinct.len() as u64;
    ev.assumptions.push("the reference machine (≈1.5 kLoC) and the generator's well-definedness rules are trusted; both are cross-checked by the sensitivity suite".into());
    ev.assumptions.push("operator expressions are evaluated after the operands, as the implementation does; R7RS leaves this open".into());
    violations
}

pub fn replay(case: &Value) -> Result<Option<Violation>, String> {
    replay_as("C01", case)
}

pub fn replay_as(property: &str, case: &Value) -> Result<Option<Violation>, String> {
    let case = Case::from_json(case)?;
    let forms = parse_forms(&case)?;
    let with_twin = case.extra.get("with_twin").and_then(|b| b.as_bool()).unwrap_or(false);
    Ok(match evaluate(&forms, &case, with_twin) {
        EvalOut::Violation { class, detail } => Some(Violation {
            property: property.into(),
            oracle: "reference machine".into(),
            signature: format!("{} {} [{}]", property, class, heads_signature(&forms)),
            run: 0,
            case: case.to_json(),
            detail,
        }),
        _ => None,
    })
}

pub fn debug_one(seed: u64, run: u64) {
    std::env::set_var("VERIF_SHRINK_TRACE", "1");
    let r = one_run(seed, run);
    eprintln!("  compared={} discarded={:?} violation={:?}", r.forms_compared, r.discarded, r.violation.map(|v| v.signature));
}

pub fn rerun(_tier: Tier, seed: u64, run: u64) -> Option<Violation> {
    one_run(seed, run).violation
}
