//! C14 — list and vector procedures match their specification and preserve identity.
use crate::case::Case;
use crate::gen::g14::G14;
use crate::kernel::SlicePlan;
use crate::props::c01::{evaluate, make_violation, EvalOut};
use crate::props::common::random_knobs;
use crate::props::gcsearch::pick_gc_plan;
use crate::report::{Evidence, Tier, Violation};
use crate::rng::{fnv64, mix, Rng};
use crate::runner::par_runs;
use serde_json::{json, Value};
use std::collections::{BTreeMap, HashSet};

struct RunResult {
    violation: Option<Violation>,
    key: u64,
    nontrivial: bool,
    discarded: Option<String>,
    forms: u64,
    ops: BTreeMap<&'static str, u64>,
    instrs: u64,
    sample: Option<Value>,
    composed: bool,
}

fn one_run(seed: u64, run: u64) -> RunResult {
    let mut rng = Rng::new(mix(seed, "C14", run));
    let knobs = random_knobs(&mut rng);
    let mut wl = rng.fork();
    let steps = 4 + wl.usize(9); // up to 12 operations
    let (forms, alias_mutations, ops) = G14::new(&mut wl).generate(steps);
    let text: Vec<String> = forms.iter().map(|f| f.text()).collect();
    let mut case = Case::new(vec![]);
    case.knobs = knobs;
    case.sched_seed = rng.next_u64();
    let mut composed = false;
    if rng.chance(1, 3) {
        let (plan, _) = pick_gc_plan(&mut rng, 2500);
        case.gc = plan;
        case.between_forms_gc = rng.chance(1, 2);
        composed = true;
    }
    if rng.chance(1, 5) {
        case.slices = SlicePlan::Random(1, 80);
        composed = true;
    }
    let mut opcount = BTreeMap::new();
    for o in &ops {
        *opcount.entry(*o).or_insert(0) += 1;
    }
    let mut res = RunResult {
        violation: None,
        key: fnv64(text.join("\n").as_bytes()),
        nontrivial: alias_mutations > 0,
        discarded: None,
        forms: 0,
        ops: opcount,
        instrs: 0,
        sample: None,
        composed,
    };
    match evaluate(&forms, &case, false) {
        EvalOut::Ok { compared, discarded, instrs, .. } => {
            res.forms = compared as u64;
            res.discarded = discarded;
            res.instrs = instrs;
            if run < 2 {
                res.sample = Some(json!({"session": text}));
            }
        }
        EvalOut::Discarded(w) => res.discarded = Some(w.to_string()),
        EvalOut::Violation { class, detail } => {
            res.violation = Some(make_violation("C14", run, &forms, &case, class, detail, false));
        }
    }
    res
}

pub fn run(tier: Tier, seed: u64, ev: &mut Evidence) -> Vec<Violation> {
    let n = match tier {
        Tier::Quick => 30_000u64,
        Tier::Thorough => 300_000u64,
    };
    ev.rule = "operation sequences (4-12 operations, every third one a unique-marker mutation through some alias) over a pool p0..p7 of proper, \
               improper and tail-sharing lists, vectors (empty, nested, containing pool lists), an association list and scalars; operations: cons car \
               cdr set-car! set-cdr! list length append reverse list-tail list-ref memq/memv/member assq/assv/assoc map (1 and 2 lists) for-each \
               list? vector make-vector vector-length/-ref/-set!/-fill! vector->list list->vector vector-copy (with start) vector-copy! (3-5 args) \
               equal?; indices from {-1,0,1,len-1,len,len+1,2^31,2^63} and uniform; arguments chosen by the reference store's actual shapes (aliases \
               such as (cdr p0), (vector-ref p5 2)), no cycles; after every operation all pool objects are dumped and compared with the reference \
               store; identity is observed through the marker mutations; collections and slices composed. distinct = session hash; non-trivial = a \
               marker mutation went through an alias"
        .into();
    let results = par_runs(n, |i| one_run(seed, i));
    let mut distinct = HashSet::new();
    let mut violations = vec![];
    for r in results {
        ev.evaluations += 1;
        ev.count("forms_compared", r.forms);
        ev.count("simulated_instructions", r.instrs);
        if r.composed {
            ev.count("runs_with_collections_or_slices", 1);
        }
        for (k, v) in r.ops {
            ev.count(&format!("op_{}", k), v);
        }
        if let Some(d) = r.discarded {
            ev.count("discarded_unspecified", 1);
            ev.count(&format!("discard_reason: {}", d), 1);
        }
        if r.nontrivial && r.violation.is_none() {
            distinct.insert(r.key);
        }
        if let Some(s) = r.sample {
            if ev.samples.len() < 2 {
                ev.samples.push(s);
            }
        }
        if let Some(v) = r.violation {
            violations.push(v);
        }
    }
    ev.distinct_nontrivial = distinct.len() as u64;
    ev.assumptions.push("vector-copy's optional end argument is not generated (the pinned suite fixes a non-R7RS meaning for it)".into());
    ev.assumptions.push("eq?/eqv? are not judged on pairs: identity is observed only through unique-marker mutations and full dumps".into());
    violations
}

pub fn replay(case: &Value) -> Result<Option<Violation>, String> {
    crate::props::c01::replay_as("C14", case)
}

pub fn rerun(_tier: Tier, seed: u64, run: u64) -> Option<Violation> {
    one_run(seed, run).violation
}
