//! Shared helpers of the property checks.
use crate::audit::AuditReport;
use crate::case::Case;
use crate::gen::g01::{Options, VKind, G01};
use crate::kernel::{AuditMode, Knobs, Obs, Probes, Sim};
use crate::rng::Rng;
use crate::sx::{call, sym, Sx};
use marwood::vm::verif::GcMode;

pub struct RunOut {
    pub obs: Vec<Obs>,
    pub fired: Vec<(usize, u64)>,
    pub audits: Vec<(usize, u64, AuditReport)>,
    pub audit_count: u64,
    pub gc_forced: u64,
    pub audit_budget_exhausted: bool,
    pub gc_policy_calls: u64,
    pub gc_freed_nonzero: u64,
    pub contexts: Vec<u64>,
    pub probes: Probes,
    pub slice_cuts: u64,
    pub ops: Vec<Vec<u8>>,
    pub instructions: u64,
    pub heap_capacity: usize,
    pub collections: u64,
}

pub struct RunOpts {
    pub mode: GcMode,
    pub audit: AuditMode,
    pub cap: u64,
    pub record_ops: bool,
    /// heap utilisation to reach with a live ballast list before the session starts
    pub ballast: Option<f64>,
    /// cells the audits and forced collections of this run may scan before the scheduler stops
    /// forcing collections (kernel::Ctl::audit_work_budget)
    pub audit_budget: u64,
}

impl RunOpts {
    pub fn to_json(&self) -> serde_json::Value {
        serde_json::json!({
            "mode": match self.mode { GcMode::Normal => "normal", GcMode::Suppress => "suppress", GcMode::ForceOnce => "force-once" },
            "audit": match self.audit { AuditMode::Off => 0, AuditMode::Every => 1, AuditMode::EveryNth(n) => n },
            "cap": self.cap,
            "ballast": self.ballast,
            "audit_budget": self.audit_budget,
        })
    }
    pub fn from_json(v: &serde_json::Value) -> RunOpts {
        RunOpts {
            mode: match v["mode"].as_str() { Some("suppress") => GcMode::Suppress, _ => GcMode::Normal },
            audit: match v["audit"].as_u64() { Some(0) | None => AuditMode::Off, Some(1) => AuditMode::Every, Some(n) => AuditMode::EveryNth(n) },
            cap: v["cap"].as_u64().unwrap_or(300_000),
            record_ops: false,
            ballast: v["ballast"].as_f64(),
            audit_budget: v["audit_budget"].as_u64().unwrap_or(100_000_000),
        }
    }
}

impl Default for RunOpts {
    fn default() -> Self {
        RunOpts {
            mode: GcMode::Normal,
            audit: AuditMode::Off,
            cap: 300_000,
            record_ops: false,
            ballast: None,
            audit_budget: 100_000_000,
        }
    }
}

thread_local! {
    static SENTINEL_SEQ: std::cell::Cell<u64> = const { std::cell::Cell::new(0) };
}

/// In crash-isolation mode (env VERIF_CRASH_SENTINEL) the case about to be executed is written to
/// a per-thread file first and removed afterwards: if the library aborts the host process
/// (native stack overflow, allocation failure) the file that is left behind is the replay.
fn sentinel_path() -> Option<std::path::PathBuf> {
    std::env::var("VERIF_CRASH_SENTINEL").ok()?;
    let tid = format!("{:?}", std::thread::current().id()).replace(|c: char| !c.is_ascii_digit(), "");
    Some(crate::report::verif_dir().join("replays").join(format!("inflight-{}-{}.json", std::process::id(), tid)))
}

pub fn run_case(case: &Case, opts: &RunOpts) -> RunOut {
    let sentinel = sentinel_path();
    if let Some(p) = &sentinel {
        let _ = std::fs::create_dir_all(p.parent().unwrap());
        let seq = SENTINEL_SEQ.with(|s| {
            s.set(s.get() + 1);
            s.get()
        });
        let doc = serde_json::json!({
            "property": std::env::var("VERIF_CRASH_SENTINEL").unwrap_or_default(),
            "oracle": "the host process must not be aborted",
            "abort_probe": true,
            "seq": seq,
            "signature": "host process aborted",
            "case": case.to_json(),
            "run_opts": opts.to_json(),
        });
        let _ = std::fs::write(p, serde_json::to_string_pretty(&doc).unwrap());
    }
    let out = run_case_inner(case, opts);
    if let Some(p) = &sentinel {
        let _ = std::fs::remove_file(p);
    }
    out
}

fn run_case_inner(case: &Case, opts: &RunOpts) -> RunOut {
    let mut sim = Sim::new(&case.knobs, case.gc.clone(), case.slices.clone(), case.sched_seed);
    sim.instr_cap = opts.cap;
    sim.set_gc_mode(opts.mode);
    let ballast = opts.ballast.or_else(|| case.extra.get("ballast").and_then(|b| b.as_f64()));
    if let Some(target) = ballast {
        sim.add_ballast(target);
    }
    {
        let mut c = sim.ctl.borrow_mut();
        c.audit = opts.audit;
        c.between_forms_gc = case.between_forms_gc;
        c.record_ops = opts.record_ops;
        c.audit_work_budget = opts.audit_budget;
    }
    let mut obs = vec![];
    let mut ops = vec![];
    for f in &case.forms {
        obs.push(sim.eval_form(f));
        if opts.record_ops {
            ops.push(sim.ctl.borrow().ops.clone());
        }
    }
    let instructions = sim.vm.verif_state().instructions;
    let heap_capacity = sim.vm.verif_heap().capacity();
    let collections = sim.vm.verif_state().collections;
    let c = sim.ctl.borrow();
    let mut contexts: Vec<u64> = c.contexts.iter().cloned().collect();
    contexts.sort();
    RunOut {
        obs,
        fired: c.fired.clone(),
        audits: c.audits.clone(),
        audit_count: c.audit_count,
        gc_forced: c.gc_forced,
        audit_budget_exhausted: c.audit_budget_exhausted,
        gc_policy_calls: c.gc_policy_calls,
        gc_freed_nonzero: c.gc_freed_nonzero,
        contexts,
        probes: c.probes.clone(),
        slice_cuts: sim.slice_cuts,
        ops,
        instructions,
        heap_capacity,
        collections,
    }
}

pub fn random_knobs(rng: &mut Rng) -> Knobs {
    let slot_order_seed = if rng.chance(1, 4) { 0 } else { rng.next_u64() | 1 };
    let heap_chunk = match rng.below(10) {
        0 => 1024,
        1 => 2048,
        2 => 4096,
        3 => 16384,
        _ => 8192,
    };
    Knobs {
        slot_order_seed,
        heap_chunk,
    }
}

pub struct GenSession {
    pub forms: Vec<Sx>,
    /// final form dumping every data global the generator knows about
    pub dump: Sx,
    pub nontrivial: bool,
}

pub fn gen_g01_session(rng: &mut Rng, opt: &Options) -> GenSession {
    let mut g = G01::new(rng, opt);
    let forms = g.session();
    let names: Vec<Sx> = g
        .globals
        .iter()
        .filter(|v| !matches!(v.kind, VKind::Proc(_)))
        .map(|v| sym(&v.name))
        .collect();
    let dump = call("list", names);
    GenSession {
        forms,
        dump,
        nontrivial: g.global_interaction && g.derived_nested,
    }
}

pub fn first_divergence(a: &[Obs], b: &[Obs]) -> Option<usize> {
    for i in 0..a.len().min(b.len()) {
        if !a[i].same_result(&b[i]) {
            return Some(i);
        }
    }
    if a.len() != b.len() {
        return Some(a.len().min(b.len()));
    }
    None
}

pub fn digest(obs: &[Obs]) -> u64 {
    let mut h = 0xcbf2_9ce4_8422_2325u64;
    for o in obs {
        o.digest_into(&mut h);
    }
    h
}
