//! C18 — symbols are interned: same name iff eq?, across collections and conversions.
use crate::case::{minimise, Case};
use crate::kernel::{AuditMode, Dv, GcPlan, Outcome};
use crate::props::common::*;
use crate::props::gcsearch::pick_gc_plan;
use crate::report::{Evidence, Tier, Violation};
use crate::rng::{fnv64, mix, Rng};
use crate::runner::par_runs;
use crate::sx::write_string;
use marwood::vm::verif::GcMode;
use serde_json::{json, Value};
use std::collections::HashSet;

/// (name, class, spellable as a source literal)
fn palette() -> Vec<(&'static str, &'static str, bool)> {
    vec![
        ("abc", "ascii-identifier", true),
        ("a", "ascii-identifier", true),
        ("A", "ascii-identifier", true),
        ("hello-world", "ascii-identifier", true),
        ("x1", "ascii-identifier", true),
        ("set-car!", "ascii-identifier", true),
        ("a.b", "ascii-identifier", true),
        ("<=?", "ascii-identifier", true),
        ("+", "peculiar", true),
        ("-", "peculiar", true),
        ("...", "peculiar", true),
        ("->x", "peculiar", true),
        ("λ", "non-ascii-letter", true),
        ("日本", "non-ascii-letter", true),
        ("straße", "non-ascii-letter", true),
        ("𝒳", "astral", true),
        ("e\u{301}", "combining", true),
        ("", "empty", false),
        ("1abc", "digit-initial", false),
        ("12", "digit-initial", false),
        ("+5", "digit-initial", false),
        (" ", "whitespace", false),
        ("a b", "whitespace", false),
        ("tab\there", "whitespace", false),
        ("line\nbreak", "whitespace", false),
        ("(", "delimiter", false),
        ("a(b", "delimiter", false),
        ("\"", "delimiter", false),
        ("a\"b", "delimiter", false),
        (";", "delimiter", false),
        ("'q", "delimiter", false),
        ("#t", "delimiter", false),
        ("|", "delimiter", false),
        ("\\", "backslash", false),
        ("a\\b", "backslash", false),
        ("\\x41;", "backslash", false),
        ("a\\", "backslash", false),
        // control characters
        ("a\u{1b}b", "control", false),
        ("\u{0}", "control", false),
        ("bell\u{7}\u{7f}", "control", false),
        ("\u{85}x\u{9b}", "control", false),
        // sign- or dot-initial tokens that are no numbers, in both cases
        ("-F", "number-shaped", true),
        ("-f", "number-shaped", true),
        ("+E", "number-shaped", true),
        (".AB", "number-shaped", true),
        ("-1x", "number-shaped", true),
        // tokens that start like a number but are none: the reader takes them as symbols
        ("1abc", "digit-initial-literal", true),
        ("12foo", "digit-initial-literal", true),
        ("1A", "digit-initial-literal", true),
        ("42..1", "digit-initial-literal", true),
        ("1+", "digit-initial-literal", true),
        // two or more characters that the written form has to escape
        ("a b c", "multi-escape", false),
        ("hello big world", "multi-escape", false),
        ("(a b)", "multi-escape", false),
        ("1 2", "multi-escape", false),
        ("\t\n", "multi-escape", false),
        ("a\\b\\c", "multi-escape", false),
        ("x;y;z", "multi-escape", false),
        ("  ", "multi-escape", false),
    ]
}

/// a seeded name over a small alphabet of ordinary and special characters
fn random_name(rng: &mut Rng) -> &'static str {
    const ALPHA: [char; 20] = ['a', 'b', 'Z', ' ', '(', ')', '"', ';', '\\', '\t', '7', 'λ', '|', '#', '\'', '.', '\u{1b}', '\u{0}', '\u{7f}', '\n'];
    let n = rng.usize(7);
    let s: String = (0..n).map(|_| ALPHA[rng.usize(ALPHA.len())]).collect();
    Box::leak(s.into_boxed_str())
}

fn strlit(s: &str) -> String {
    let mut out = String::new();
    write_string(s, &mut out);
    out
}

#[derive(Clone, Copy, Debug, PartialEq, Eq)]
enum Route {
    Literal,
    QuotedListElement,
    QuotedVectorElement,
    StringToSymbol,
    MacroOutput,
    EvalQuoted,
    EvalConstructed,
    CarOfList,
    ViaSymbolString,
    StringAppend,
    /// constant dotted tail of a quasiquote template inside a procedure defined earlier
    QuasiDottedTail,
    /// constant element of a quasiquote template inside a procedure defined earlier
    QuasiElement,
    /// delivered by a continuation invoked in a non-tail position
    ViaContinuationLiteral,
    ViaContinuationComputed,
}

const ROUTES: [Route; 14] = [
    Route::Literal,
    Route::QuotedListElement,
    Route::QuotedVectorElement,
    Route::StringToSymbol,
    Route::MacroOutput,
    Route::EvalQuoted,
    Route::EvalConstructed,
    Route::CarOfList,
    Route::ViaSymbolString,
    Route::StringAppend,
    Route::QuasiDottedTail,
    Route::QuasiElement,
    Route::ViaContinuationLiteral,
    Route::ViaContinuationComputed,
];

fn needs_literal(r: Route) -> bool {
    matches!(
        r,
        Route::Literal
            | Route::QuotedListElement
            | Route::QuotedVectorElement
            | Route::MacroOutput
            | Route::EvalQuoted
            | Route::CarOfList
            | Route::QuasiDottedTail
            | Route::QuasiElement
            | Route::ViaContinuationLiteral
    )
}

/// expression producing the symbol named `name` by `route`; `aux` receives forms that must
/// be evaluated earlier (macro definitions)
fn produce(route: Route, name: &str, uniq: usize, aux: &mut Vec<String>) -> String {
    match route {
        Route::Literal => format!("'{}", name),
        Route::QuotedListElement => format!("(car (cdr '(zz {} 5)))", name),
        Route::QuotedVectorElement => format!("(vector-ref '#(1 {}) 1)", name),
        Route::StringToSymbol => format!("(string->symbol {})", strlit(name)),
        Route::MacroOutput => {
            aux.push(format!("(define-syntax mk-sym{} (syntax-rules () ((_) '{})))", uniq, name));
            format!("(mk-sym{})", uniq)
        }
        Route::EvalQuoted => format!("(eval ''{})", name),
        Route::EvalConstructed => format!("(eval (list 'quote (string->symbol {})))", strlit(name)),
        Route::CarOfList => format!("(car (list '{} 1))", name),
        Route::ViaSymbolString => format!("(string->symbol (symbol->string (string->symbol {})))", strlit(name)),
        Route::ViaContinuationLiteral => format!("(call/cc (lambda (k) (list 'unreached (k '{}))))", name),
        Route::ViaContinuationComputed => format!(
            "(car (list (call/cc (lambda (k) (vector (k (string->symbol {})) 'unreached)))))",
            strlit(name)
        ),
        Route::QuasiDottedTail => {
            aux.push(format!("(define (tagger{} x) `(,x . {}))", uniq, name));
            format!("(cdr (tagger{} 1))", uniq)
        }
        Route::QuasiElement => {
            aux.push(format!("(define (wrap{} x) `({} ,x #({} ,x)))", uniq, name, name));
            if uniq % 2 == 0 {
                format!("(car (wrap{} 1))", uniq)
            } else {
                format!("(vector-ref (car (cdr (cdr (wrap{} 1)))) 0)", uniq)
            }
        }
        Route::StringAppend => {
            // split the name at a char boundary
            let chars: Vec<char> = name.chars().collect();
            let k = chars.len() / 2;
            let a: String = chars[..k].iter().collect();
            let b: String = chars[k..].iter().collect();
            format!("(string->symbol (string-append {} {}))", strlit(&a), strlit(&b))
        }
    }
}

#[derive(Clone, Debug)]
struct Expect {
    form: usize,
    expected: bool,
    what: String,
}

struct Generated {
    forms: Vec<String>,
    expects: Vec<Expect>,
    sample_desc: String,
}

/// thousands of symbols, each referenced only from a small container of its own, created in one
/// evaluation during which the heap outgrows its first chunk; collections; then every symbol is
/// compared with the symbol made again from the same name
fn generate_mass(rng: &mut Rng) -> Generated {
    let n = rng.range(1200, 3600);
    let (hold, unhold, hname) = match rng.below(3) {
        0 => ("(vector X)", "(vector-ref H 0)", "vector"),
        1 => ("(list X 'pad)", "(car H)", "list"),
        _ => ("(let ((s X)) (lambda () s))", "(H)", "closure"),
    };
    let make = "(string->symbol (string-append \"mass-\" (number->string i)))";
    let mut forms: Vec<String> = vec![
        "(define (t-build n) (let loop ((i 0) (acc '())) (if (< i n) (loop (+ i 1) (cons i acc)) acc)))".into(),
        format!("(define hv (make-vector {} #f))", n),
        format!(
            "(let loop ((i 0)) (if (< i {n}) (begin (vector-set! hv i {hold}) (loop (+ i 1))) 'filled))",
            n = n,
            hold = hold.replace('X', make)
        ),
        format!("(begin (t-build {}) 'g)", rng.range(500, 4000)),
        format!("(begin (t-build {}) 'g)", rng.range(500, 4000)),
    ];
    forms.push(format!(
        "(= 0 (let loop ((i 0) (bad 0)) (if (< i {n}) (loop (+ i 1) (if (eq? {unhold} {make}) bad (+ bad 1))) bad)))",
        n = n,
        unhold = unhold.replace('H', "(vector-ref hv i)"),
        make = make
    ));
    let what = format!("eq? for each of {} symbols held in a {} of their own, heap grown meanwhile", n, hname);
    let expects = vec![Expect { form: forms.len() - 1, expected: true, what: "eq? mass symbols-held-in-containers heap-grown".into() }];
    Generated { forms, expects, sample_desc: what }
}

fn generate(rng: &mut Rng) -> Generated {
    let pal = palette();
    let mut forms: Vec<String> = vec![
        "(define (t-build n) (let loop ((i 0) (acc '())) (if (< i n) (loop (+ i 1) (cons i acc)) acc)))".into(),
        "(define (t-syms n) (let loop ((i 0) (acc '())) (if (< i n) (loop (+ i 1) (cons (string->symbol (string-append \"tmp-\" (number->string i))) acc)) acc)))".into(),
    ];
    let mut expects = vec![];
    let mut desc = vec![];
    let n_pairs = 1 + rng.usize(3);
    for p in 0..n_pairs {
        let (name1, class1, lit1) = if rng.chance(1, 6) { (random_name(rng), "random", false) } else { pal[rng.usize(pal.len())] };
        // second name: same (mostly) or a different one
        let same = rng.chance(2, 3);
        let (name2, _class2, lit2) = if same { (name1, class1, lit1) } else { pal[rng.usize(pal.len())] };
        let names_equal = name1 == name2;
        // `...` cannot be written in a syntax-rules template (it is the ellipsis)
        let routes1: Vec<Route> = ROUTES.iter().cloned().filter(|r| (lit1 || !needs_literal(*r)) && !(name1 == "..." && *r == Route::MacroOutput)).collect();
        let routes2: Vec<Route> = ROUTES.iter().cloned().filter(|r| (lit2 || !needs_literal(*r)) && !(name2 == "..." && *r == Route::MacroOutput)).collect();
        let r1 = *rng.pick(&routes1);
        let r2 = *rng.pick(&routes2);
        let mut aux = vec![];
        let e1 = produce(r1, name1, p * 2, &mut aux);
        let e2 = produce(r2, name2, p * 2 + 1, &mut aux);
        forms.extend(aux);
        let holder = rng.below(11);
        let garbage = format!("(begin (t-build {}) (t-syms {}) 'g)", rng.range(1, 60), rng.range(0, 12));
        // one class of pairs has a signature of its own (it is a known finding on the pinned tree):
        // the same digit-initial name once spelled in the program text and once converted from a string
        // (by name, not by palette entry: the palette lists "1abc" twice, once as a name that is only
        // ever converted from a string and once as a name that is also written in the program text)
        let digit_literal = |n: &str| ["1abc", "12foo", "1A", "42..1", "1+"].contains(&n);
        let literal_vs_converted = digit_literal(name1) && names_equal && needs_literal(r1) != needs_literal(r2);
        let what = if literal_vs_converted {
            "eq? digit-initial name: literal vs string->symbol".to_string()
        } else {
            format!(
                "eq? route1={:?} route2={:?} name-class={} holder={} names-{}",
                r1,
                r2,
                class1,
                ["global", "vector", "closure", "stack", "dropped", "captured-stack", "vector-in-list", "closure-in-list", "nested-vector", "live-activation-define", "live-activation-assigned"][holder as usize],
                if names_equal { "equal" } else { "differ" }
            )
        };
        desc.push(what.clone());
        match holder {
            0 => {
                forms.push(format!("(define h{} {})", p, e1));
                forms.push(garbage);
                forms.push(format!("(eq? h{} {})", p, e2));
                expects.push(Expect { form: forms.len() - 1, expected: names_equal, what });
            }
            1 => {
                forms.push(format!("(define h{} (vector 0 {}))", p, e1));
                forms.push(garbage);
                forms.push(format!("(eq? (vector-ref h{} 1) {})", p, e2));
                expects.push(Expect { form: forms.len() - 1, expected: names_equal, what });
            }
            2 => {
                forms.push(format!("(define h{} (let ((s {})) (lambda () s)))", p, e1));
                forms.push(garbage);
                forms.push(format!("(eq? (h{}) {})", p, e2));
                expects.push(Expect { form: forms.len() - 1, expected: names_equal, what });
            }
            5 => {
                // the first symbol lives only on the stack saved in a continuation: it is the operand
                // evaluated just before the call/cc operand; re-entering the continuation later
                // delivers it to the pending cons
                forms.push(format!("(define kk{} #f)", p));
                forms.push(format!("(define n{} 0)", p));
                forms.push(format!("(define cell{} #f)", p));
                forms.push(format!("(begin (set! cell{p} (cons {e1} (call/cc (lambda (c) (set! kk{p} c) 'first)))) 'captured)", p = p, e1 = e1));
                // the first result is dropped: from here on the symbol is referenced only by the
                // stack saved in the continuation
                forms.push(format!("(set! cell{} #f)", p));
                forms.push(garbage);
                forms.push(format!("(if (< n{p} 1) (begin (set! n{p} (+ n{p} 1)) (kk{p} 'second)) 'no)", p = p));
                forms.push(format!("(eq? (car cell{}) {})", p, e2));
                expects.push(Expect { form: forms.len() - 1, expected: names_equal, what });
            }
            6 => {
                // the holder is itself an element of a list
                forms.push(format!("(define h{} (list 1 (vector 0 {}) 2))", p, e1));
                forms.push(garbage);
                forms.push(format!("(eq? (vector-ref (car (cdr h{})) 1) {})", p, e2));
                expects.push(Expect { form: forms.len() - 1, expected: names_equal, what });
            }
            7 => {
                forms.push(format!("(define h{} (list (let ((s {})) (lambda () s)) 'x))", p, e1));
                forms.push(garbage);
                forms.push(format!("(eq? ((car h{})) {})", p, e2));
                expects.push(Expect { form: forms.len() - 1, expected: names_equal, what });
            }
            8 => {
                forms.push(format!("(define h{} (vector (vector 0 (list (vector {}))) 1))", p, e1));
                forms.push(garbage);
                forms.push(format!("(eq? (vector-ref (car (vector-ref (vector-ref h{} 0) 1)) 0) {})", p, e2));
                expects.push(Expect { form: forms.len() - 1, expected: names_equal, what });
            }
            9 | 10 => {
                // the symbol lives only in an internal definition (or an assigned local) of an
                // activation that is still running, while a closure over ANOTHER variable of that
                // activation sits in a global
                forms.push(format!("(define hg{} #f)", p));
                if holder == 9 {
                    forms.push(format!(
                        "(define (live{p}) (define s {e1}) (define other (list 'o)) (set! hg{p} (lambda () other)) {g} (eq? s {e2}))",
                        p = p, e1 = e1, e2 = e2, g = garbage
                    ));
                } else {
                    forms.push(format!(
                        "(define (live{p} s other) (set! hg{p} (lambda () other)) (set! s {e1}) {g} (eq? s {e2}))",
                        p = p, e1 = e1, e2 = e2, g = garbage
                    ));
                }
                forms.push(if holder == 9 { format!("(live{})", p) } else { format!("(live{} 0 (list 'o))", p) });
                expects.push(Expect { form: forms.len() - 1, expected: names_equal, what });
            }
            3 => {
                // only on the stack, within one evaluation
                forms.push(format!("(let ((a {})) {} (eq? a {}))", e1, garbage, e2));
                expects.push(Expect { form: forms.len() - 1, expected: names_equal, what });
            }
            _ => {
                // dropped entirely: the first cell may be swept before the second is made
                forms.push(format!("(begin {} 'dropped)", e1));
                forms.push(garbage);
                let mut aux2 = vec![];
                let e3 = produce(r1, name1, 100 + p, &mut aux2);
                forms.extend(aux2);
                forms.push(format!("(eq? {} {})", e3, e2));
                expects.push(Expect { form: forms.len() - 1, expected: names_equal, what });
            }
        }
        // conversions
        if rng.chance(1, 2) {
            forms.push(format!(
                "(equal? (symbol->string (string->symbol {s})) {s})",
                s = strlit(name1)
            ));
            expects.push(Expect {
                form: forms.len() - 1,
                expected: true,
                what: format!("symbol->string(string->symbol s)=s name-class={}", class1),
            });
        }
        if rng.chance(1, 2) {
            let mut aux3 = vec![];
            let e = produce(r1, name1, 200 + p, &mut aux3);
            forms.extend(aux3);
            forms.push(format!("(let ((y {})) {} (eq? (string->symbol (symbol->string y)) y))", e, "(t-syms 3)"));
            expects.push(Expect {
                form: forms.len() - 1,
                expected: true,
                what: if ["1abc", "12foo", "1A", "42..1", "1+"].contains(&name1) && needs_literal(r1) {
                    "string->symbol(symbol->string y) is y: digit-initial literal".to_string()
                } else {
                    format!("string->symbol(symbol->string y) is y route={:?} name-class={}", r1, class1)
                },
            });
        }
    }
    Generated {
        forms,
        expects,
        sample_desc: desc.join("; "),
    }
}

enum EvalOut {
    Ok { gc_forced: u64, freed: u64, audits: u64, checked: u64 },
    Discarded(&'static str),
    Violation { signature: String, detail: String, fired: Vec<(usize, u64)> },
}

fn expects_from(case: &Case) -> Vec<Expect> {
    case.extra["expects"]
        .as_array()
        .map(|a| {
            a.iter()
                .map(|e| Expect {
                    form: e["form_text"].as_str().map(|t| case.forms.iter().position(|f| f == t).unwrap_or(usize::MAX)).unwrap_or(usize::MAX),
                    expected: e["expected"].as_bool().unwrap_or(true),
                    what: e["what"].as_str().unwrap_or("").to_string(),
                })
                .collect()
        })
        .unwrap_or_default()
}

fn evaluate(case: &Case) -> EvalOut {
    let run = run_case(
        case,
        &RunOpts {
            mode: GcMode::Normal,
            audit: AuditMode::Every,
            cap: 400_000,
            ..Default::default()
        },
    );
    for (form, boundary, rep) in &run.audits {
        for f in &rep.findings {
            if f.invariant == "I4" {
                let class: String = f.detail.chars().map(|c| if c.is_ascii_digit() { '#' } else { c }).collect();
                return EvalOut::Violation {
                    signature: format!("C18 audit.I4 {}", class),
                    detail: format!("intern-table audit after the collection at form {} boundary {}: cell {}: {}", form, boundary, f.cell, f.detail),
                    fired: run.fired.clone(),
                };
            }
        }
    }
    let mut checked = 0;
    for e in expects_from(case) {
        if e.form == usize::MAX {
            continue; // the form was removed by the minimiser
        }
        let o = &run.obs[e.form];
        match &o.outcome {
            Outcome::Value(Dv::Bool(b)) if *b == e.expected => checked += 1,
            Outcome::Diverged => return EvalOut::Discarded("diverged"),
            other => {
                // an earlier setup form (macro definition, holder) may have been removed by the
                // minimiser: an unbound-variable failure of a minimised case is not this violation
                let kind = match other {
                    Outcome::Value(_) => "wrong-answer",
                    Outcome::Error(_, _, _) => "failure",
                    Outcome::Panic(_) => "panic",
                    _ => "other",
                };
                return EvalOut::Violation {
                    signature: format!("C18 {} {}", kind, e.what),
                    detail: format!(
                        "form {}: {}\n  expected {} ; observed {}\n  schedule {} ; collections fired {}",
                        e.form,
                        case.forms[e.form],
                        if e.expected { "#t" } else { "#f" },
                        other.brief(),
                        case.gc.describe(),
                        run.fired.len()
                    ),
                    fired: run.fired.clone(),
                };
            }
        }
    }
    EvalOut::Ok {
        gc_forced: run.gc_forced,
        freed: run.gc_freed_nonzero,
        audits: run.audit_count,
        checked,
    }
}

struct RunResult {
    evals: u64,
    keys: Vec<u64>,
    violation: Option<Violation>,
    gc_forced: u64,
    audits: u64,
    checked: u64,
    sample: Option<Value>,
    discarded: u64,
}

fn one_run(seed: u64, run: u64) -> RunResult {
    let mut rng = Rng::new(mix(seed, "C18", run));
    let knobs = random_knobs(&mut rng);
    let mut wl = rng.fork();
    let mass = run % 16 == 15;
    let g = if mass { generate_mass(&mut wl) } else { generate(&mut wl) };
    let mut case = Case::new(g.forms.clone());
    case.knobs = knobs;
    if mass && rng.chance(2, 3) {
        // slices move the collection points of the production policy across the loop body
        case.slices = crate::kernel::SlicePlan::Constant(rng.range(200, 9000) as usize + rng.usize(60));
    }
    let expects: Vec<Value> = g
        .expects
        .iter()
        .map(|e| json!({"form_text": g.forms[e.form], "expected": e.expected, "what": e.what}))
        .collect();
    case.extra = json!({ "expects": expects });
    let mut res = RunResult {
        evals: 0,
        keys: vec![],
        violation: None,
        gc_forced: 0,
        audits: 0,
        checked: 0,
        sample: None,
        discarded: 0,
    };
    let session_hash = fnv64(case.forms.join("\n").as_bytes());
    for s in 0..3 {
        // mass sessions run hundreds of thousands of instructions: the production policy (with
        // slices moving its collection points) twice, then one schedule that is affordable at that size
        let (plan, _family) = if s == 0 || (mass && s == 1) {
            (GcPlan::None, "none")
        } else {
            pick_gc_plan(&mut rng, if mass { 400_000 } else { 2000 })
        };
        if mass && s == 1 {
            case.slices = crate::kernel::SlicePlan::Constant(rng.range(200, 9000) as usize + rng.usize(60));
        }
        case.gc = plan;
        case.between_forms_gc = s != 0 && rng.chance(2, 3);
        case.sched_seed = rng.next_u64();
        res.evals += 1;
        match evaluate(&case) {
            EvalOut::Ok { gc_forced, freed, audits, checked } => {
                res.gc_forced += gc_forced;
                res.audits += audits;
                res.checked += checked;
                if freed > 0 {
                    res.keys.push(session_hash ^ fnv64(format!("{:?}{}", case.gc, case.sched_seed).as_bytes()));
                }
                if res.sample.is_none() && run < 3 && s == 1 {
                    res.sample = Some(json!({"what": g.sample_desc, "session": case.forms, "gc": crate::case::gc_to_json(&case.gc)}));
                }
            }
            EvalOut::Discarded(_) => {
                res.discarded += 1;
                break;
            }
            EvalOut::Violation { signature, detail, .. } => {
                let sig = signature.clone();
                let min = minimise(&case, &sig, |c| match evaluate(c) {
                    EvalOut::Violation { signature, fired, .. } => Some((signature, fired)),
                    _ => None,
                });
                let detail = match evaluate(&min) {
                    EvalOut::Violation { detail, .. } => detail,
                    _ => detail,
                };
                res.violation = Some(Violation {
                    property: "C18".into(),
                    oracle: if sig.contains("audit") { "intern-table audit".into() } else { "name-equality model".into() },
                    signature: sig,
                    run,
                    case: min.to_json(),
                    detail,
                });
                break;
            }
        }
    }
    res
}

pub fn run(tier: Tier, seed: u64, ev: &mut Evidence) -> Vec<Violation> {
    let n = match tier {
        Tier::Quick => 4000u64,
        Tier::Thorough => 150_000u64,
    };
    ev.rule = "pairs of production routes (literal, quoted list/vector element, string->symbol, syntax-rules output, eval of quoted and of \
               constructed datum, car of a list, via symbol->string, computed by string-append) over a name palette (identifiers, peculiar \
               identifiers, digit-initial, empty, whitespace, delimiters, backslash, non-ASCII, astral, combining); first symbol held in a \
               global / vector / closure / only on the stack / dropped; garbage and collections between the two productions; each session under \
               no collection and two seeded collection schedules, within one evaluation and across evaluations; oracle: eq? iff names equal, the two \
               conversion laws, intern-table audit I4 after every collection. distinct = (session, schedule); non-trivial = a collection freed cells"
        .into();
    let results = par_runs(n, |i| one_run(seed, i));
    let mut distinct = HashSet::new();
    let mut violations = vec![];
    for r in results {
        ev.evaluations += r.evals;
        for k in r.keys {
            distinct.insert(k);
        }
        ev.fault("gc_forced", r.gc_forced);
        ev.count("audits", r.audits);
        ev.count("expectations_checked", r.checked);
        ev.count("discarded", r.discarded);
        if let Some(s) = r.sample {
            if ev.samples.len() < 3 {
                ev.samples.push(s);
            }
        }
        if let Some(v) = r.violation {
            violations.push(v);
        }
    }
    ev.distinct_nontrivial = distinct.len() as u64;
    ev.assumptions.push("literal routes are generated only for names the pinned reader spells as one symbol token".into());
    violations
}

pub fn replay(case: &Value) -> Result<Option<Violation>, String> {
    let case = Case::from_json(case)?;
    Ok(match evaluate(&case) {
        EvalOut::Violation { signature, detail, .. } => Some(Violation {
            property: "C18".into(),
            oracle: if signature.contains("audit") { "intern-table audit".into() } else { "name-equality model".into() },
            signature,
            run: 0,
            case: case.to_json(),
            detail,
        }),
        _ => None,
    })
}

pub fn rerun(_tier: Tier, seed: u64, run: u64) -> Option<Violation> {
    one_run(seed, run).violation
}
