//! C04 — calls in tail position run in constant stack space (DESIGN §5 C04).
//! A resource invariant monitored over simulated time: the stack-pointer high-water mark
//! (sampled at every instruction boundary, hook H2) of a loop of n tail calls must not depend on n.
use crate::kernel::{Dv, GcPlan, Knobs, Outcome, Sim, SlicePlan};
use crate::props::common::random_knobs;
use crate::report::{Evidence, Tier, Violation};
use crate::rng::{fnv64, mix, Rng};
use crate::runner::par_runs;
use marwood::vm::verif::GcMode;
use serde_json::{json, Value};
use std::collections::HashSet;

const CONTEXTS: [&str; 24] = [
    "if-then", "if-else", "cond-else", "cond-test", "cond-arrow", "case-hit", "case-else", "and", "or", "when", "unless", "let",
    "let*", "letrec", "named-let", "begin", "apply", "apply-spread", "call/cc", "call/cc-k", "eval", "lambda-app", "let-internal-define",
    "let-procedure",
];

/// wrap the tail call text `e` so that it stays in tail position
fn wrap(ctx: &str, e: &str, uniq: usize) -> String {
    match ctx {
        "if-then" => format!("(if (= 1 1) {} 'no)", e),
        "if-else" => format!("(if (= 1 2) 'no {})", e),
        "cond-else" => format!("(cond ((= 1 2) 'no) (else {}))", e),
        "cond-test" => format!("(cond ((= 1 2) 'no) ((= 2 2) 'x {}))", e),
        "cond-arrow" => format!("(cond ((+ 1 1) => (lambda (t{}) {})) (else 'no))", uniq, e),
        "case-hit" => format!("(case (+ 1 1) ((1) 'no) ((2 3) {}) (else 'no))", e),
        "case-else" => format!("(case 5 ((1) 'no) (else {}))", e),
        "and" => format!("(and 1 #t {})", e),
        "or" => format!("(or #f (= 1 2) {})", e),
        "when" => format!("(when (= 1 1) 'x {})", e),
        "unless" => format!("(unless (= 1 2) 'x {})", e),
        "let" => format!("(let ((t{u} 1) (s{u} 2)) {e})", u = uniq, e = e),
        // a let that binds a procedure: the application it expands to has a lambda expression operand
        "let-procedure" => format!("(let ((t{u} (lambda (v) (+ v 1))) (s{u} 2)) {e})", u = uniq, e = e),
        "let*" => format!("(let* ((t{u} 1) (s{u} t{u})) {e})", u = uniq, e = e),
        "letrec" => format!("(letrec ((t{u} (lambda () 1))) {e})", u = uniq, e = e),
        "named-let" => format!("(let lp{u} ((q{u} 0)) (if (< q{u} 1) (lp{u} (+ q{u} 1)) {e}))", u = uniq, e = e),
        "begin" => format!("(begin 'x 'y {})", e),
        "lambda-app" => format!("((lambda (t{u}) {e}) 1)", u = uniq, e = e),
        "let-internal-define" => format!("(let () (define d{u} 1) {e})", u = uniq, e = e),
        "call/cc" => format!("(call/cc (lambda (k{u}) {e}))", u = uniq, e = e),
        "call/cc-k" => format!("(call/cc (lambda (k{u}) (if (= 1 2) (k{u} 'no) {e})))", u = uniq, e = e),
        _ => e.to_string(),
    }
}

/// contexts that rewrite the call itself
fn rewrite_call(ctx: &str, proc: &str, args: &[String]) -> String {
    match ctx {
        "apply" => format!("(apply {} (list {}))", proc, args.join(" ")),
        "apply-spread" => {
            if args.is_empty() {
                format!("(apply {} '())", proc)
            } else {
                format!("(apply {} {} (list {}))", proc, args[0], args[1..].join(" "))
            }
        }
        // the argument values are spliced into the evaluated datum
        "eval" => format!("(eval (list '{} {}))", proc, args.join(" ")),
        _ => unreachable!(),
    }
}

fn rewrites_call(ctx: &str) -> bool {
    matches!(ctx, "apply" | "apply-spread" | "eval")
}

#[derive(Clone, Debug)]
pub struct Family {
    /// per procedure: (number of fixed params, has rest, tail-context chain (outermost first))
    pub procs: Vec<(usize, bool, Vec<String>)>,
    pub uses_eval: bool,
    /// the procedures take over the names of built-in procedures (redefinition of globals: a caller
    /// is compiled while its callee's name still denotes the built-in)
    pub builtin_names: bool,
    /// every procedure of the family takes a procedure as an extra first argument and every call
    /// passes a fresh lambda expression (that captures nothing) in that position
    pub closure_arg: bool,
}

const BUILTIN_NAMES: [&str; 3] = ["even?", "odd?", "truncate"];

impl Family {
    fn proc_name(&self, i: usize) -> String {
        if self.builtin_names {
            BUILTIN_NAMES[i % BUILTIN_NAMES.len()].to_string()
        } else {
            format!("p{}", i)
        }
    }

    pub fn render(&self) -> Vec<String> {
        // the loop step is a procedure so that the tail call sits directly in the body of its
        // procedure (a `begin` would put it into a zero-argument lambda and every call would take the
        // different-argument-count path of the frame rewrite)
        let mut forms = vec![
            "(define %i 0)".to_string(),
            "(define %acc 0)".to_string(),
            "(define %bad 0)".to_string(),
            "(define (%step) (set! %i (- %i 1)) (set! %acc (+ %acc 1)) #t)".to_string(),
        ];
        let np = self.procs.len();
        let mut uniq = 0;
        for (pi, (arity, rest, chain)) in self.procs.iter().enumerate() {
            let (n_arity, n_rest, _) = &self.procs[(pi + 1) % np];
            // call of the next procedure with as many integer arguments as it needs (+2 if variadic)
            let argc = n_arity + if *n_rest { 2 } else { 0 };
            // arguments depend on the iteration so that a frame rewrite that loses or misplaces
            // one is seen by the callee (which compares them with the counter)
            let mut args: Vec<String> = (0..argc).map(|a| format!("(+ %i {})", a + 1)).collect();
            if self.closure_arg {
                args.insert(0, "(lambda (v) (+ v 1))".to_string());
            }
            let proc = self.proc_name((pi + 1) % np);
            let mut call = if args.is_empty() { format!("({})", proc) } else { format!("({} {})", proc, args.join(" ")) };
            // a context that rewrites the call itself (apply / eval) is applied first (innermost,
            // at most one); the others wrap the result, innermost first
            if let Some(ctx) = chain.iter().find(|c| rewrites_call(c)) {
                call = rewrite_call(ctx, &proc, &args);
            }
            for ctx in chain.iter().rev().filter(|c| !rewrites_call(c)) {
                uniq += 1;
                call = wrap(ctx, &call, uniq);
            }
            let mut params: Vec<String> = (0..*arity).map(|a| format!("a{}", a)).collect();
            if self.closure_arg {
                params.insert(0, "f".to_string());
            }
            let formals = if *rest {
                if params.is_empty() {
                    "r".to_string()
                } else {
                    format!("({} . r)", params.join(" "))
                }
            } else {
                format!("({})", params.join(" "))
            };
            let mut checks: Vec<String> = (0..*arity).map(|a| format!("(= a{} (+ %i {}))", a, a + 1)).collect();
            if self.closure_arg {
                checks.push("(= (f %i) (+ %i 1))".to_string());
            }
            if *rest {
                checks.push(format!("(if (pair? r) (= (car r) (+ %i {})) #t)", arity + 1));
                checks.push("(<= (length r) 2)".to_string());
            }
            let verify = if checks.is_empty() {
                "'ok".to_string()
            } else {
                format!("(if (and {}) 'ok (set! %bad (+ %bad 1)))", checks.join(" "))
            };
            forms.push(format!(
                "(define {pi} (lambda {formals} {verify} (if (= %i 0) (list 'done %acc %bad) (if (%step) {call} 'never))))",
                pi = self.proc_name(pi),
                formals = formals,
                verify = verify,
                call = call
            ));
        }
        forms
    }

    pub fn start_call(&self) -> String {
        let (arity, rest, _) = &self.procs[0];
        let argc = arity + if *rest { 1 } else { 0 };
        let mut args: Vec<String> = (0..argc).map(|a| format!("(+ %i {})", a + 1)).collect();
        if self.closure_arg {
            args.insert(0, "(lambda (v) (+ v 1))".to_string());
        }
        if args.is_empty() {
            format!("({})", self.proc_name(0))
        } else {
            format!("({} {})", self.proc_name(0), args.join(" "))
        }
    }

    pub fn nontrivial(&self) -> bool {
        let ctxs: HashSet<&String> = self.procs.iter().flat_map(|p| p.2.iter()).collect();
        self.procs.len() >= 2 || ctxs.len() >= 2
    }
}

pub fn random_family(rng: &mut Rng) -> Family {
    let np = 1 + rng.usize(3);
    let mut uses_eval = false;
    let procs = (0..np)
        .map(|_| {
            let depth = rng.usize(4); // 0..3 composed contexts
            let chain: Vec<String> = (0..depth)
                .map(|_| {
                    let c = CONTEXTS[rng.usize(CONTEXTS.len())];
                    if c == "eval" {
                        uses_eval = true;
                    }
                    c.to_string()
                })
                .collect();
            (rng.usize(5), rng.chance(1, 3), chain)
        })
        .collect();
    let builtin_names = rng.chance(1, 5);
    // (a procedure object is not a datum eval accepts, so not together with the eval context)
    let closure_arg = !uses_eval && rng.chance(1, 5);
    Family { procs, uses_eval, builtin_names, closure_arg }
}

#[derive(Clone, Debug)]
pub struct TailCase {
    pub family: Family,
    pub ns: Vec<u64>,
    pub knobs: Knobs,
    pub gc: GcPlan,
    pub slices: SlicePlan,
    pub sched_seed: u64,
}

pub fn evaluate(tc: &TailCase) -> Result<Option<(String, String)>, String> {
    let mut sim = Sim::new(&tc.knobs, tc.gc.clone(), tc.slices.clone(), tc.sched_seed);
    sim.set_gc_mode(GcMode::Normal);
    sim.instr_cap = 400_000_000;
    for f in tc.family.render() {
        let o = sim.eval_form(&f);
        if !matches!(o.outcome, Outcome::Value(_)) {
            return Err(format!("set-up form failed: {} -> {}", f, o.outcome.brief()));
        }
    }
    let cap0 = sim.vm.verif_stack().len();
    let mut marks: Vec<(u64, usize)> = vec![];
    for n in &tc.ns {
        sim.eval_form(&format!("(set! %i {})", n));
        sim.eval_form("(set! %acc 0)");
        sim.eval_form("(set! %bad 0)");
        sim.vm.verif_state_mut().max_sp = 0;
        let o = sim.eval_form(&tc.family.start_call());
        let expected = Dv::list(vec![Dv::Sym("done".into()), Dv::Int(*n as i128), Dv::Int(0)]);
        match &o.outcome {
            Outcome::Value(v) if *v == expected => {}
            Outcome::Diverged => return Err("instruction cap".into()),
            other => {
                return Ok(Some((
                    format!("C04 wrong-value contexts={}", context_sig(&tc.family)),
                    format!("loop of n={} tail calls returned {} instead of (done {} 0) (third element: number of calls that received wrong arguments)\n{}", n, other.brief(), n, tc.family.render().join("\n")),
                )))
            }
        }
        marks.push((*n, sim.vm.verif_state().max_sp));
        // stop at the first iteration count whose high-water mark differs: the larger runs would
        // only repeat the finding at a cost that grows with the leaked depth
        if marks.last().unwrap().1 != marks[0].1 {
            break;
        }
    }
    let cap1 = sim.vm.verif_stack().len();
    let base = marks[0].1;
    for (n, m) in &marks {
        if *m != base {
            return Ok(Some((
                format!("C04 stack-grows contexts={}", context_sig(&tc.family)),
                format!(
                    "stack high-water mark depends on the iteration count: {:?} (n, max sp); stack capacity {} -> {}\n{}\nstart: {}",
                    marks,
                    cap0,
                    cap1,
                    tc.family.render().join("\n"),
                    tc.family.start_call()
                ),
            )));
        }
        let _ = n;
    }
    if cap1 != cap0 {
        return Ok(Some((
            format!("C04 stack-capacity-grows contexts={}", context_sig(&tc.family)),
            format!("stack capacity grew from {} to {}", cap0, cap1),
        )));
    }
    Ok(None)
}

fn context_sig(f: &Family) -> String {
    let mut c: Vec<String> = f.procs.iter().flat_map(|p| p.2.iter().cloned()).collect();
    c.sort();
    c.dedup();
    let arities: Vec<String> = f.procs.iter().map(|p| format!("{}{}", p.0, if p.1 { "r" } else { "" })).collect();
    format!("[{}] arities={}", c.join(","), arities.join("->"))
}

fn to_json(tc: &TailCase) -> Value {
    json!({
        "family": tc.family.procs.iter().map(|p| json!({"arity": p.0, "rest": p.1, "contexts": p.2})).collect::<Vec<_>>(),
        "builtin_names": tc.family.builtin_names,
        "closure_arg": tc.family.closure_arg,
        "ns": tc.ns,
        "knobs": {"slot_order_seed": tc.knobs.slot_order_seed, "heap_chunk": tc.knobs.heap_chunk},
        "gc": crate::case::gc_to_json(&tc.gc),
        "slices": crate::case::slices_to_json(&tc.slices),
        "sched_seed": tc.sched_seed,
        "program": tc.family.render(),
        "start": tc.family.start_call(),
    })
}

fn from_json(v: &Value) -> Result<TailCase, String> {
    let procs = v["family"]
        .as_array()
        .ok_or("family missing")?
        .iter()
        .map(|p| {
            (
                p["arity"].as_u64().unwrap_or(0) as usize,
                p["rest"].as_bool().unwrap_or(false),
                p["contexts"].as_array().map(|a| a.iter().map(|c| c.as_str().unwrap_or("").to_string()).collect()).unwrap_or_default(),
            )
        })
        .collect::<Vec<(usize, bool, Vec<String>)>>();
    let uses_eval = procs.iter().any(|p| p.2.iter().any(|c| c == "eval"));
    Ok(TailCase {
        family: Family { procs, uses_eval, builtin_names: v["builtin_names"].as_bool().unwrap_or(false), closure_arg: v["closure_arg"].as_bool().unwrap_or(false) },
        ns: v["ns"].as_array().map(|a| a.iter().map(|n| n.as_u64().unwrap_or(10)).collect()).unwrap_or_else(|| vec![10, 1000]),
        knobs: Knobs {
            slot_order_seed: v["knobs"]["slot_order_seed"].as_u64().unwrap_or(0),
            heap_chunk: v["knobs"]["heap_chunk"].as_u64().unwrap_or(8192) as usize,
        },
        gc: crate::case::gc_from_json(&v["gc"])?,
        slices: crate::case::slices_from_json(&v["slices"])?,
        sched_seed: v["sched_seed"].as_u64().unwrap_or(0),
    })
}

fn minimise(tc: &TailCase, sig_class: &str) -> TailCase {
    let class_of = |s: &str| s.split(' ').take(2).collect::<Vec<_>>().join(" ");
    let fails = |c: &TailCase| matches!(evaluate(c), Ok(Some((s, _))) if class_of(&s) == sig_class);
    let mut best = tc.clone();
    if !crate::report::minimise_on() {
        return best;
    }
    // smaller n
    for ns in [vec![10u64, 100], vec![10, 1000]] {
        let mut c = best.clone();
        c.ns = ns;
        if fails(&c) {
            best = c;
            break;
        }
    }
    // drop schedule
    let mut c = best.clone();
    c.gc = GcPlan::None;
    c.slices = SlicePlan::None;
    if fails(&c) {
        best = c;
    }
    // fewer procedures
    while best.family.procs.len() > 1 {
        let mut improved = false;
        for i in 0..best.family.procs.len() {
            let mut c = best.clone();
            c.family.procs.remove(i);
            if fails(&c) {
                best = c;
                improved = true;
                break;
            }
        }
        if !improved {
            break;
        }
    }
    // fewer contexts, simpler arities
    loop {
        let mut improved = false;
        for pi in 0..best.family.procs.len() {
            for ci in 0..best.family.procs[pi].2.len() {
                let mut c = best.clone();
                c.family.procs[pi].2.remove(ci);
                if fails(&c) {
                    best = c;
                    improved = true;
                    break;
                }
            }
            if improved {
                break;
            }
            if best.family.procs[pi].1 {
                let mut c = best.clone();
                c.family.procs[pi].1 = false;
                if fails(&c) {
                    best = c;
                    improved = true;
                    break;
                }
            }
            if best.family.procs[pi].0 > 0 {
                let mut c = best.clone();
                c.family.procs[pi].0 -= 1;
                if fails(&c) {
                    best = c;
                    improved = true;
                    break;
                }
            }
        }
        if !improved {
            break;
        }
    }
    best
}

struct RunResult {
    violation: Option<Violation>,
    key: u64,
    nontrivial: bool,
    contexts: Vec<String>,
    arity_pairs: Vec<String>,
    skipped: Option<String>,
    sample: Option<Value>,
    composed: bool,
}

fn one_run(seed: u64, run: u64, ns: &[u64]) -> RunResult {
    let mut rng = Rng::new(mix(seed, "C04", run));
    let knobs = random_knobs(&mut rng);
    let mut wl = rng.fork();
    let family = random_family(&mut wl);
    let mut tc = TailCase {
        ns: ns.iter().map(|n| if family.uses_eval { (*n).min(20_000) } else { *n }).collect(),
        family,
        knobs,
        gc: GcPlan::None,
        slices: SlicePlan::None,
        sched_seed: rng.next_u64(),
    };
    let mut composed = false;
    if rng.chance(1, 4) {
        // sparse forced collections and slices: the in-place frame rewrite must survive both
        tc.gc = GcPlan::Bernoulli(1, *rng.pick(&[500u64, 5000, 50_000]));
        composed = true;
    }
    if rng.chance(1, 4) {
        tc.slices = SlicePlan::Random(1, 5000);
        composed = true;
    }
    let key = fnv64(format!("{:?}", tc.family).as_bytes());
    let contexts: Vec<String> = tc.family.procs.iter().flat_map(|p| p.2.iter().cloned()).collect();
    let np = tc.family.procs.len();
    let arity_pairs = (0..np)
        .map(|i| {
            let a = &tc.family.procs[i];
            let b = &tc.family.procs[(i + 1) % np];
            format!("{}{}->{}{}", a.0, if a.1 { "r" } else { "" }, b.0, if b.1 { "r" } else { "" })
        })
        .collect();
    let mut res = RunResult {
        violation: None,
        key,
        nontrivial: tc.family.nontrivial(),
        contexts,
        arity_pairs,
        skipped: None,
        sample: None,
        composed,
    };
    match evaluate(&tc) {
        Ok(None) => {
            if run < 3 {
                res.sample = Some(to_json(&tc));
            }
        }
        Ok(Some((sig, detail))) => {
            let class = sig.split(' ').take(2).collect::<Vec<_>>().join(" ");
            let min = minimise(&tc, &class);
            let (sig, detail) = match evaluate(&min) {
                Ok(Some(x)) => x,
                _ => (sig, detail),
            };
            res.violation = Some(Violation {
                property: "C04".into(),
                oracle: "stack high-water monitor".into(),
                signature: sig,
                run,
                case: to_json(&min),
                detail,
            });
        }
        Err(e) => res.skipped = Some(e),
    }
    res
}

pub fn run(tier: Tier, seed: u64, ev: &mut Evidence) -> Vec<Violation> {
    let (n, ns): (u64, Vec<u64>) = match tier {
        Tier::Quick => (700, vec![10, 1000, 100_000]),
        Tier::Thorough => (20_000, vec![10, 1000, 100_000]),
    };
    ev.rule = "loop families: 1-3 procedures calling each other in a cycle through a chain of 0-3 tail contexts drawn from 24 (if/cond/case/and/or/\
               when/unless branches, let-family and begin bodies, internal-define body, immediately applied lambda, cond =>, apply, call/cc, eval), \
               caller/callee arities 0-4 with and without rest parameters; each family runs n in {10, 10^3, 10^5} iterations (eval loops capped \
               at 2*10^4) in one VM; the stack pointer is sampled at every instruction boundary: the high-water mark must be the same for every n, \
               stack capacity unchanged, value (done n); a quarter of the runs add sparse forced collections and slices. distinct = family hash; \
               non-trivial = >= 2 procedures or >= 2 different tail contexts"
        .into();
    let results = par_runs(n, |i| one_run(seed, i, &ns));
    let mut distinct = HashSet::new();
    let mut ctxs: HashSet<String> = HashSet::new();
    let mut pairs: HashSet<String> = HashSet::new();
    let mut violations = vec![];
    for r in results {
        ev.evaluations += 1;
        if r.nontrivial && r.violation.is_none() && r.skipped.is_none() {
            distinct.insert(r.key);
        }
        for c in r.contexts {
            ctxs.insert(c);
        }
        for p in r.arity_pairs {
            pairs.insert(p);
        }
        if r.composed {
            ev.count("runs_with_collections_or_slices", 1);
        }
        if let Some(s) = r.skipped {
            ev.count("skipped", 1);
            if ev.notes.len() < 5 {
                ev.notes.push(format!("skipped: {}", s));
            }
        }
        if let Some(s) = r.sample {
            if ev.samples.len() < 3 {
                ev.samples.push(s);
            }
        }
        if let Some(v) = r.violation {
            violations.push(v);
        }
    }
    ev.distinct_nontrivial = distinct.len() as u64;
    let mut c: Vec<String> = ctxs.into_iter().collect();
    c.sort();
    ev.extra.insert("tail_contexts_exercised".into(), json!(c));
    ev.extra.insert("distinct_arity_pairs".into(), json!(pairs.len()));
    ev.extra.insert("iteration_counts".into(), json!(ns));
    ev.assumptions.push("no schedule in the statement: this is a resource invariant monitored over simulated time, decided by seeded search over loop shapes".into());
    violations
}

pub fn replay(case: &Value) -> Result<Option<Violation>, String> {
    let tc = from_json(case)?;
    Ok(evaluate(&tc)?.map(|(sig, detail)| Violation {
        property: "C04".into(),
        oracle: "stack high-water monitor".into(),
        signature: sig,
        run: 0,
        case: case.clone(),
        detail,
    }))
}

pub fn rerun(_tier: Tier, seed: u64, run: u64) -> Option<Violation> {
    one_run(seed, run, &[10, 1000, 100_000]).violation
}
