//! C11 — reader discipline: total, exact spans, one datum per parse, incompleteness found.
//! The simulated system is terminal -> validator -> evaluator: text arrives in chunks, the
//! front-end loop (re-implemented after marwood-repl/src/main.rs and marwood-wasm/src/lib.rs)
//! validates, evaluates one datum and continues with the trimmed remaining text. The fault is
//! the end of input: at every token boundary (enumerated) and at seeded byte positions.
use crate::gen::g11::{self, Rendered};
use crate::kernel::{cell_to_dv, Dv};
use crate::report::{Evidence, Tier, Violation};
use crate::rng::{fnv64, mix, Rng};
use crate::runner::par_runs;
use marwood::lex;
use marwood::parse;
use marwood::vm::Vm;
use serde_json::{json, Value};
use std::collections::{BTreeMap, HashSet};
use std::panic::{catch_unwind, AssertUnwindSafe};

#[derive(Debug, Clone, PartialEq)]
enum Validity {
    Incomplete,
    /// the front end would hand the text to the evaluator
    Submit,
}

/// marwood-repl's InputValidator::validate / marwood-wasm's check
fn validate(text: &str) -> Validity {
    match lex::scan(text) {
        Ok(tokens) => match parse::parse(text, &mut tokens.iter().peekable()) {
            Err(parse::Error::Incomplete) => Validity::Incomplete,
            _ => Validity::Submit,
        },
        Err(lex::Error::Incomplete) => Validity::Incomplete,
        Err(_) => Validity::Submit,
    }
}

/// span invariants on a scan result; None = fine
fn check_spans(text: &str) -> Option<String> {
    let tokens = match lex::scan(text) {
        Ok(t) => t,
        Err(_) => return None,
    };
    let mut prev_end = 0usize;
    for (i, t) in tokens.iter().enumerate() {
        let (a, b) = t.span;
        if a >= b {
            return Some(format!("span empty-or-inverted token {} span {:?}", i, t.span));
        }
        if b > text.len() {
            return Some(format!("span out-of-bounds token {} span {:?} text length {}", i, t.span, text.len()));
        }
        if !text.is_char_boundary(a) || !text.is_char_boundary(b) {
            return Some(format!("span not-on-char-boundary token {} span {:?}", i, t.span));
        }
        if a < prev_end {
            return Some(format!("span overlaps-previous token {} span {:?} previous end {}", i, t.span, prev_end));
        }
        if let Some(why) = gap_problem(&text[prev_end..a]) {
            return Some(format!("gap {} before token {} ({:?})", why, i, &text[prev_end..a]));
        }
        prev_end = b;
    }
    if let Some(why) = gap_problem(&text[prev_end..]) {
        return Some(format!("gap {} after the last token ({:?})", why, &text[prev_end..]));
    }
    None
}

/// a gap between tokens may contain only whitespace and comments
fn gap_problem(gap: &str) -> Option<&'static str> {
    let mut in_comment = false;
    for c in gap.chars() {
        if in_comment {
            if c == '\n' {
                in_comment = false;
            }
        } else if c == ';' {
            in_comment = true;
        } else if !c.is_whitespace() {
            return Some("contains-non-whitespace");
        }
    }
    None
}

/// evaluate a text datum by datum as `Vm::eval_text` + the REPL loop do; returns the values and
/// the number of iterations, or a violation
fn eval_all(vm: &mut Vm, text: &str, expect_spans: Option<&Rendered>) -> Result<Vec<Dv>, String> {
    let mut out = vec![];
    let mut rest: &str = text;
    let mut iterations = 0usize;
    let bound = text.len() + 2;
    loop {
        if rest.trim().is_empty() {
            return Ok(out);
        }
        iterations += 1;
        if iterations > bound {
            return Err("progress evaluating datum by datum does not terminate".into());
        }
        match vm.eval_text(rest) {
            Ok((cell, remaining)) => {
                out.push(cell_to_dv(&cell));
                match remaining {
                    None => return Ok(out),
                    Some(r) => {
                        if r.len() >= rest.len() {
                            return Err(format!("remaining text did not shrink: {:?} -> {:?}", rest, r));
                        }
                        // the remaining text must be a suffix of the input beginning at a token
                        if !rest.ends_with(r) {
                            return Err(format!("remaining text is not a suffix of the input: {:?}", r));
                        }
                        if let Some(rend) = expect_spans {
                            let offset = text.len() - r.len();
                            if !rend.spans.iter().any(|s| s.0 == offset) {
                                return Err(format!("remaining text does not begin at a token: offset {}", offset));
                            }
                        }
                        rest = r;
                    }
                }
            }
            Err(e) => return Err(format!("evaluation-error {:?}", marwood_error_class(&e))),
        }
    }
}

fn marwood_error_class(e: &marwood::error::Error) -> String {
    format!("{:?}", e).chars().take(60).collect()
}

fn catch<T, F: FnOnce() -> T>(f: F) -> Result<T, String> {
    catch_unwind(AssertUnwindSafe(f)).map_err(|_| format!("panic {}", crate::kernel::last_panic()))
}

/// all checks on one well-formed rendered text; returns (signature class, detail)
fn check_wellformed(r: &Rendered, chunk_seed: u64) -> Result<Option<(String, String)>, String> {
    let text = &r.text;
    // (a) spans: the scanner's tokens are exactly the generator's
    let scanned = catch(|| lex::scan(text))?;
    let tokens = match scanned {
        Ok(t) => t,
        Err(e) => return Ok(Some(("scan well-formed-text-rejected".into(), format!("scan error {:?} on {:?}", e, text)))),
    };
    let got: Vec<(usize, usize)> = tokens.iter().map(|t| t.span).collect();
    if got != r.spans {
        let i = got.iter().zip(r.spans.iter()).position(|(a, b)| a != b).unwrap_or(got.len().min(r.spans.len()));
        return Ok(Some((
            format!("span token-boundaries-differ class={}", r.classes.get(i).unwrap_or(&"?")),
            format!("text {:?}\n  scanner spans  {:?}\n  generator spans {:?}", text, got, r.spans),
        )));
    }
    if let Some(p) = catch(|| check_spans(text))? {
        return Ok(Some((format!("span {}", p.split(' ').take(2).collect::<Vec<_>>().join(" ")), format!("{} in {:?}", p, text))));
    }
    // (b) datum by datum: each datum once, in order; remaining text begins at the next token
    let mut vm = Vm::new();
    match catch(|| eval_all(&mut vm, text, Some(r)))? {
        Ok(values) => {
            if values.len() != r.data.len() || !values.iter().zip(r.data.iter()).all(|(a, b)| b.matches(a)) {
                return Ok(Some((
                    "data evaluated-data-differ".into(),
                    format!(
                        "text {:?}\n  evaluated {:?}\n  expected  {:?}",
                        text,
                        values.iter().map(|v| v.show()).collect::<Vec<_>>(),
                        r.data.iter().map(|v| v.show()).collect::<Vec<_>>()
                    ),
                )));
            }
        }
        Err(e) => return Ok(Some((format!("loop {}", e.split(' ').next().unwrap_or("")), format!("{} on {:?}", e, text)))),
    }
    // (b') the same through the simulated terminal: chunks at token boundaries
    let mut rng = Rng::new(chunk_seed);
    let mut boundaries: Vec<usize> = r.spans.iter().map(|s| s.1).filter(|_| rng.chance(1, 3)).collect();
    boundaries.push(text.len());
    boundaries.dedup();
    let mut buffer = String::new();
    let mut delivered = 0usize;
    let mut values = vec![];
    let mut iterations = 0usize;
    let mut bi = 0usize;
    let limit = r.data.len() + boundaries.len() + 2;
    let res = catch(|| -> Result<(), String> {
        loop {
            iterations += 1;
            if iterations > 2 * limit + 4 {
                return Err("progress front-end loop exceeds #data + #chunks iterations".into());
            }
            if !buffer.trim().is_empty() && validate(&buffer) == Validity::Submit {
                match vm.eval_text(&buffer) {
                    Ok((cell, remaining)) => {
                        values.push(cell_to_dv(&cell));
                        buffer = remaining.unwrap_or("").trim().to_string();
                    }
                    Err(e) => return Err(format!("evaluation-error {:?}", marwood_error_class(&e))),
                }
                continue;
            }
            if bi >= boundaries.len() {
                return Ok(());
            }
            let next = boundaries[bi];
            bi += 1;
            buffer.push_str(&text[delivered..next]);
            delivered = next;
        }
    })?;
    if let Err(e) = res {
        return Ok(Some((format!("stream {}", e.split(' ').next().unwrap_or("")), format!("{} on {:?} chunks at {:?}", e, text, boundaries))));
    }
    // what is left may hold whitespace and comments but no token
    let leftover_tokens = lex::scan(&buffer).map(|t| t.len()).unwrap_or(1);
    if values.len() != r.data.len() || !values.iter().zip(r.data.iter()).all(|(a, b)| b.matches(a)) || leftover_tokens != 0 {
        return Ok(Some((
            "stream evaluated-data-differ".into(),
            format!(
                "text {:?} chunks at {:?}\n  evaluated {:?} leftover {:?}\n  expected  {:?}",
                text,
                boundaries,
                values.iter().map(|v| v.show()).collect::<Vec<_>>(),
                buffer,
                r.data.iter().map(|v| v.show()).collect::<Vec<_>>()
            ),
        )));
    }
    // (c) end of input at EVERY token boundary
    for (i, span) in r.spans.iter().enumerate() {
        let prefix = &text[..span.1];
        let complete = r.depth_after[i] == 0;
        let complete_data = if complete { r.datum_of[i] + 1 } else { r.datum_of[i] };
        // consume the complete data, then look at what is left
        let outcome = catch(|| -> Result<(usize, Validity, bool), String> {
            let mut rest: String = prefix.to_string();
            let mut n = 0usize;
            loop {
                if rest.trim().is_empty() {
                    return Ok((n, Validity::Submit, true));
                }
                match validate(&rest) {
                    Validity::Incomplete => return Ok((n, Validity::Incomplete, false)),
                    Validity::Submit => match parse::parse_text(&rest) {
                        Ok((_, remaining)) => {
                            n += 1;
                            let r2 = remaining.unwrap_or("").to_string();
                            if r2.len() >= rest.len() {
                                return Err("remaining text did not shrink".into());
                            }
                            rest = r2;
                        }
                        Err(e) => return Err(format!("reported-as-error {:?}", e)),
                    },
                }
                if n > r.data.len() + 1 {
                    return Err("more data than written".into());
                }
            }
        })?;
        match outcome {
            Ok((n, validity, empty)) => {
                let ok = if complete {
                    n == complete_data && empty
                } else {
                    n == complete_data && validity == Validity::Incomplete
                };
                if !ok {
                    let class = if complete { "complete-datum-not-consumed" } else { "cut-not-reported-incomplete" };
                    return Ok(Some((
                        format!("incomplete {} after={}", class, r.classes[i]),
                        format!(
                            "prefix {:?} (cut after token {} of class {}, nesting {}): consumed {} data, then {:?}; expected {} complete data and {}",
                            prefix,
                            i,
                            r.classes[i],
                            r.depth_after[i],
                            n,
                            validity,
                            complete_data,
                            if complete { "nothing left" } else { "Incomplete" }
                        ),
                    )));
                }
            }
            Err(e) => {
                return Ok(Some((
                    format!("incomplete {} after={}", e.split(' ').next().unwrap_or(""), r.classes[i]),
                    format!("prefix {:?} (cut after token {} of class {}): {}", prefix, i, r.classes[i], e),
                )))
            }
        }
    }
    Ok(None)
}

/// totality and span discipline on arbitrary text
fn check_arbitrary(text: &str) -> Option<(String, String)> {
    let r = catch(|| -> Option<String> {
        if let Some(p) = check_spans(text) {
            return Some(format!("span {}", p));
        }
        // parse datum by datum: terminates, remaining is a shrinking suffix beginning at a token
        let starts: Option<Vec<usize>> = lex::scan(text).ok().map(|t| t.iter().map(|t| t.span.0).collect());
        let mut rest: &str = text;
        let mut n = 0;
        loop {
            n += 1;
            if n > text.len() + 2 {
                return Some("progress parse loop does not terminate".into());
            }
            match parse::parse_text(rest) {
                Ok((_, Some(r))) => {
                    if r.len() >= rest.len() || !rest.ends_with(r) {
                        return Some(format!("remaining not a shrinking suffix: {:?}", r));
                    }
                    if let Some(starts) = &starts {
                        let off = text.len() - r.len();
                        if !starts.contains(&off) {
                            return Some(format!("remaining does not begin at a token (offset {})", off));
                        }
                    }
                    rest = r;
                }
                Ok((_, None)) => return None,
                Err(parse::Error::Incomplete) => {
                    // "incomplete" asks for more input: the parser must have used up what there is
                    if let Ok(tokens) = lex::scan(rest) {
                        let mut cur = tokens.iter().peekable();
                        if let Err(parse::Error::Incomplete) = parse::parse(rest, &mut cur) {
                            if let Some(t) = cur.peek() {
                                return Some(format!(
                                    "incomplete reported-with-input-left: token at offset {} of {:?} was never consumed",
                                    t.span.0, rest
                                ));
                            }
                        }
                    }
                    return None;
                }
                Err(_) => return None,
            }
        }
    });
    match r {
        Ok(None) => None,
        Ok(Some(p)) => Some((format!("arbitrary {}", p.split(' ').take(2).collect::<Vec<_>>().join(" ")), format!("{} on {:?}", p, text))),
        Err(p) => Some(("arbitrary panic".into(), format!("{} on {:?}", p, text))),
    }
}

/// Every run executes in a thread of its own, so that state the reader may keep per thread is in
/// a known (fresh) condition at the start of the run and the run's own history - the earlier
/// inputs of the same session - is the only thing that can influence it. A replay does the same.
///
/// The thread is also the watchdog's unit: reading a generated text takes microseconds, so a
/// run that has not returned after WATCHDOG_SECS of wall time is reported as non-termination
/// (C11: "the scanner and parser terminate"). The stuck thread is left behind; once a run has
/// hung, later runs of the batch are skipped so that the check itself terminates.
const WATCHDOG_SECS: u64 = 30;
static HUNG: std::sync::atomic::AtomicBool = std::sync::atomic::AtomicBool::new(false);

fn in_fresh_thread<T: Send + 'static, F: FnOnce() -> T + Send + 'static>(f: F) -> Option<T> {
    let (tx, rx) = std::sync::mpsc::channel();
    std::thread::Builder::new()
        .stack_size(64 << 20)
        .spawn(move || {
            let _ = tx.send(f());
        })
        .expect("spawn");
    match rx.recv_timeout(std::time::Duration::from_secs(WATCHDOG_SECS)) {
        Ok(v) => Some(v),
        Err(std::sync::mpsc::RecvTimeoutError::Timeout) => {
            HUNG.store(true, std::sync::atomic::Ordering::SeqCst);
            None
        }
        Err(std::sync::mpsc::RecvTimeoutError::Disconnected) => panic!("run thread panicked"),
    }
}

fn hang_violation(run: u64, case: Value, text: &str) -> Violation {
    Violation {
        property: "C11".into(),
        oracle: "watchdog".into(),
        signature: "C11 termination reader-did-not-return".into(),
        run,
        case,
        detail: format!("scanning / parsing / evaluating datum by datum did not return within {} s of wall time on {:?}", WATCHDOG_SECS, text),
    }
}

/// earlier inputs of the same terminal session: scanned, parsed and (if possible) evaluated;
/// their own outcome is not judged here
fn feed_history(history: &[String]) {
    for h in history {
        let _ = catch(|| {
            let _ = lex::scan(h);
        });
        let _ = catch(|| {
            let _ = parse::parse_text(h);
        });
    }
}

fn gen_history(rng: &mut Rng) -> Vec<String> {
    let n = rng.usize(3);
    (0..n)
        .map(|_| match rng.below(5) {
            0 => g11::token_soup(rng),
            1 => g11::random_unicode(rng),
            2 => {
                let base = g11::wellformed(rng).text;
                g11::mutate(rng, &base)
            }
            3 => format!("(display \"unterminated {}", rng.below(100)),
            _ => format!("(list 1 2 #{} 3)", *rng.pick(&['q', '!', '@', ']'])),
        })
        .collect()
}

struct RunResult {
    evals: u64,
    cuts: u64,
    chunks: u64,
    violation: Option<Violation>,
    keys: Vec<u64>,
    classes: BTreeMap<String, u64>,
    sample: Option<Value>,
    kind: &'static str,
}

fn rendered_to_json(r: &Rendered, chunk_seed: u64, history: &[String]) -> Value {
    json!({
        "mode": "wellformed",
        "history": history,
        "text": r.text,
        "spans": r.spans,
        "classes": r.classes,
        "datum_of": r.datum_of,
        "depth_after": r.depth_after,
        "data": r.data.iter().map(|d| d.show()).collect::<Vec<_>>(),
        "chunk_seed": chunk_seed,
    })
}

fn one_run(seed: u64, run: u64) -> RunResult {
    let mut rng = Rng::new(mix(seed, "C11", run));
    let mut res = RunResult {
        evals: 1,
        cuts: 0,
        chunks: 0,
        violation: None,
        keys: vec![],
        classes: BTreeMap::new(),
        sample: None,
        kind: "wellformed",
    };
    let history = gen_history(&mut rng);
    if run % 4 != 3 {
        let r = g11::wellformed(&mut rng);
        let chunk_seed = rng.next_u64();
        res.cuts = r.spans.len() as u64;
        res.chunks = 1;
        // distinct contexts: (class before cut, class after cut, nesting bucket)
        for i in 0..r.spans.len() {
            let after = r.classes.get(i + 1).cloned().unwrap_or("eof");
            let key = format!("{}|{}|{}", r.classes[i], after, r.depth_after[i].min(3));
            *res.classes.entry(key).or_insert(0) += 1;
            if r.depth_after[i] >= 2 {
                res.keys.push(fnv64(format!("{}#{}", r.text, i).as_bytes()));
            }
        }
        if HUNG.load(std::sync::atomic::Ordering::SeqCst) {
            res.kind = "skipped_after_hang";
            return res;
        }
        let (h2, r2) = (history.clone(), r.clone());
        let outcome = match in_fresh_thread(move || {
            feed_history(&h2);
            check_wellformed(&r2, chunk_seed)
        }) {
            Some(o) => o,
            None => {
                res.violation = Some(hang_violation(run, rendered_to_json(&r, chunk_seed, &history), &r.text));
                return res;
            }
        };
        match outcome {
            Ok(None) => {
                if run < 3 {
                    res.sample = Some(json!({"text": r.text, "tokens": r.spans.len(), "data": r.data.iter().map(|d| d.show()).collect::<Vec<_>>()}));
                }
            }
            Ok(Some((class, detail))) => {
                res.violation = Some(Violation {
                    property: "C11".into(),
                    oracle: "generator's token/datum structure".into(),
                    signature: format!("C11 {}", class),
                    run,
                    case: rendered_to_json(&r, chunk_seed, &history),
                    detail,
                });
            }
            Err(p) => {
                res.violation = Some(Violation {
                    property: "C11".into(),
                    oracle: "totality".into(),
                    signature: "C11 wellformed panic".into(),
                    run,
                    case: rendered_to_json(&r, chunk_seed, &history),
                    detail: format!("{} on {:?}", p, r.text),
                });
            }
        }
    } else {
        res.kind = "arbitrary";
        let text = match rng.below(4) {
            0 => g11::token_soup(&mut rng),
            1 => g11::random_unicode(&mut rng),
            2 => {
                let base = g11::wellformed(&mut rng).text;
                g11::mutate(&mut rng, &base)
            }
            _ => {
                // a well-formed text cut at a seeded byte position inside a token
                let base = g11::wellformed(&mut rng).text;
                let mut cut = rng.usize(base.len() + 1);
                while !base.is_char_boundary(cut) {
                    cut -= 1;
                }
                base[..cut].to_string()
            }
        };
        if HUNG.load(std::sync::atomic::Ordering::SeqCst) {
            res.kind = "skipped_after_hang";
            return res;
        }
        let (h2, t2) = (history.clone(), text.clone());
        let outcome = match in_fresh_thread(move || {
            feed_history(&h2);
            check_arbitrary(&t2)
        }) {
            Some(o) => o,
            None => {
                res.violation = Some(hang_violation(run, json!({"mode": "arbitrary", "text": text, "history": history}), &text));
                return res;
            }
        };
        if let Some((class, detail)) = outcome {
            res.violation = Some(Violation {
                property: "C11".into(),
                oracle: "span and progress invariants".into(),
                signature: format!("C11 {}", class),
                run,
                case: json!({"mode": "arbitrary", "text": text, "history": history}),
                detail,
            });
        }
    }
    res
}

pub fn run(tier: Tier, seed: u64, ev: &mut Evidence) -> Vec<Violation> {
    let n = match tier {
        Tier::Quick => 60_000u64,
        Tier::Thorough => 400_000u64,
    };
    ev.rule = "three quarters of the runs: a generated sequence of 1-5 quoted well-formed data (all token classes, three bracket spellings, vectors, \
               dotted tails, quote/quasiquote/unquote sugar, number prefixes, comments, multi-byte characters) with explicit token boundaries: the \
               scanner's spans must equal the generator's and satisfy the span invariants; evaluation datum by datum and through the simulated \
               terminal (chunks at seeded token boundaries, validate, evaluate one datum, continue with the trimmed remaining text) must visit each \
               datum once in order within #data + #chunks iterations; the end of input is injected at EVERY token boundary: the complete data are \
               consumed and the rest is Incomplete (never an error), a complete datum is never Incomplete; one quarter: token soup, random Unicode, \
               mutations and mid-token cuts for totality, span invariants and progress; every run is a terminal session of its own (fresh thread) \
               that first receives 0-2 earlier inputs (token soup, unterminated strings, illegal # syntax ...) whose lexical errors must leave no trace. distinct = (text, cut) hash; non-trivial = the cut falls at \
               nesting depth >= 2"
        .into();
    let results = par_runs(n, |i| one_run(seed, i));
    let mut distinct = HashSet::new();
    let mut contexts: BTreeMap<String, u64> = BTreeMap::new();
    let mut violations = vec![];
    for r in results {
        ev.evaluations += r.evals;
        ev.fault("input_eof_token_boundary", r.cuts);
        ev.fault("input_chunked_sessions", r.chunks);
        ev.count(&format!("texts_{}", r.kind), 1);
        for k in r.keys {
            distinct.insert(k);
        }
        for (k, v) in r.classes {
            *contexts.entry(k).or_insert(0) += v;
        }
        if let Some(s) = r.sample {
            if ev.samples.len() < 3 {
                ev.samples.push(s);
            }
        }
        if let Some(v) = r.violation {
            violations.push(v);
        }
    }
    ev.distinct_nontrivial = distinct.len() as u64;
    ev.extra.insert("distinct_cut_contexts".into(), json!(contexts.len()));
    ev.extra.insert("cut_context_measure".into(), json!("(token class before the cut, token class after, nesting depth bucket)"));
    ev.exhaustive = Some(false);
    ev.assumptions.push("the end of input is enumerated at every token boundary of every generated text; texts are sampled".into());
    violations
}

pub fn replay(case: &Value) -> Result<Option<Violation>, String> {
    let text = case["text"].as_str().ok_or("text missing")?.to_string();
    let history: Vec<String> = case["history"].as_array().map(|a| a.iter().map(|h| h.as_str().unwrap_or("").to_string()).collect()).unwrap_or_default();
    if case["mode"].as_str() == Some("arbitrary") {
        let (h2, t2) = (history.clone(), text.clone());
        let outcome = match in_fresh_thread(move || {
            feed_history(&h2);
            check_arbitrary(&t2)
        }) {
            Some(o) => o,
            None => return Ok(Some(hang_violation(0, case.clone(), &text))),
        };
        return Ok(outcome.map(|(class, detail)| Violation {
            property: "C11".into(),
            oracle: "span and progress invariants".into(),
            signature: format!("C11 {}", class),
            run: 0,
            case: case.clone(),
            detail,
        }));
    }
    let arr_pairs = |k: &str| -> Vec<(usize, usize)> {
        case[k]
            .as_array()
            .map(|a| a.iter().map(|p| (p[0].as_u64().unwrap_or(0) as usize, p[1].as_u64().unwrap_or(0) as usize)).collect())
            .unwrap_or_default()
    };
    let arr_usize = |k: &str| -> Vec<usize> { case[k].as_array().map(|a| a.iter().map(|p| p.as_u64().unwrap_or(0) as usize).collect()).unwrap_or_default() };
    // data are re-read from their text through the harness reader
    let data: Vec<Dv> = case["data"]
        .as_array()
        .map(|a| {
            a.iter()
                .map(|d| match crate::sx::read_one(d.as_str().unwrap_or("")) {
                    Ok(sx) => crate::refscheme::value::V::from_datum(&sx, true).to_dv(),
                    Err(_) => Dv::Wild,
                })
                .collect()
        })
        .unwrap_or_default();
    let classes: Vec<&'static str> = case["classes"]
        .as_array()
        .map(|a| {
            a.iter()
                .map(|c| match c.as_str().unwrap_or("") {
                    "number" => "number",
                    "number-prefix" => "number-prefix",
                    "boolean" => "boolean",
                    "char" => "char",
                    "string" => "string",
                    "symbol" => "symbol",
                    "open" => "open",
                    "close" => "close",
                    "dot" => "dot",
                    "vector-open" => "vector-open",
                    "prefix" => "prefix",
                    _ => "?",
                })
                .collect()
        })
        .unwrap_or_default();
    let r = Rendered {
        text,
        spans: arr_pairs("spans"),
        classes,
        datum_of: arr_usize("datum_of"),
        depth_after: arr_usize("depth_after"),
        data,
    };
    let chunk_seed = case["chunk_seed"].as_u64().unwrap_or(0);
    let (h2, r2) = (history.clone(), r.clone());
    let outcome = match in_fresh_thread(move || {
        feed_history(&h2);
        check_wellformed(&r2, chunk_seed)
    }) {
        Some(o) => o,
        None => return Ok(Some(hang_violation(0, case.clone(), &r.text))),
    };
    match outcome {
        Ok(None) => Ok(None),
        Ok(Some((class, detail))) => Ok(Some(Violation {
            property: "C11".into(),
            oracle: "generator's token/datum structure".into(),
            signature: format!("C11 {}", class),
            run: 0,
            case: case.clone(),
            detail,
        })),
        Err(p) => Ok(Some(Violation {
            property: "C11".into(),
            oracle: "totality".into(),
            signature: "C11 wellformed panic".into(),
            run: 0,
            case: case.clone(),
            detail: p,
        })),
    }
}
