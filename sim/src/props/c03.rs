//! C03 — garbage collection is unobservable and never reclaims a live object.
use crate::props::gcsearch::*;
use crate::report::{Evidence, Tier, Violation};
use serde_json::{json, Value};
use std::collections::HashSet;

pub fn run(tier: Tier, seed: u64, ev: &mut Evidence) -> Vec<Violation> {
    let (n_g01, n_tpl, n_g05, n_g02, n_deep) = match tier {
        Tier::Quick => (500u64, 450u64, 300u64, 150u64, 60u64),
        Tier::Thorough => (16_000u64, 10_000u64, 10_000u64, 4_000u64, 1_500u64),
    };
    ev.rule = "workloads: G01 sessions, G05 continuation sessions, G02 scope skeletons and allocation-heavy templates (lists, vectors, strings+string->symbol, closures, \
               continuations, eval, variadic/apply, deep recursion, heap growth, long procedures later redefined, promises) and deep live structures (car nesting, vector nesting, closure chains of depth 100..3000 around powers of two); per workload \
               3 collection schedules drawn from {every k (1..16), every instruction where affordable, Bernoulli 1/2 1/10 1/100, bursts \
               after CONS/CALL/CLOSURE/ENTER/TCALL/VARARG/VPUSHACC, production policy at random cadence, sparse}, each optionally also \
               between forms; oracles: twin VM with collections suppressed (value, failure, output, stack trace, instruction count per form) \
               and heap audit I1/I3/I4 after forced collections. distinct = (session, schedule) hash; non-trivial = at least one collection \
               of the run freed cells"
        .into();
    let mut distinct = HashSet::new();
    let mut contexts = HashSet::new();
    let mut v = batch(Attribution::C03, seed, n_g01, workload_g01, 3, ev, &mut distinct, &mut contexts, 0);
    v.extend(batch(Attribution::C03, seed, n_tpl, workload_templates, 3, ev, &mut distinct, &mut contexts, 1_000_000));
    v.extend(batch(Attribution::C03, seed, n_g05, workload_g05, 3, ev, &mut distinct, &mut contexts, 2_000_000));
    v.extend(batch(Attribution::C03, seed, n_g02, workload_g02, 3, ev, &mut distinct, &mut contexts, 3_000_000));
    v.extend(batch(Attribution::C03, seed, n_deep, workload_deep, 3, ev, &mut distinct, &mut contexts, 4_000_000));
    ev.distinct_nontrivial = distinct.len() as u64;
    ev.extra.insert("distinct_contexts".into(), json!(contexts.len()));
    ev.extra.insert(
        "distinct_contexts_measure".into(),
        json!("(next opcode, previous opcode, kinds of the four top stack slots, acc kind) at a forced collection"),
    );
    ev.assumptions.push("a run with collections suppressed (hook H3 Suppress) is the meaning of 'a run in which no collection happens'".into());
    v
}

pub fn replay(case: &Value) -> Result<Option<Violation>, String> {
    crate::props::gcsearch::replay(Attribution::C03, case)
}

pub fn rerun(_tier: Tier, seed: u64, run: u64) -> Option<Violation> {
    let workload: fn(&mut crate::rng::Rng) -> (Vec<String>, String) = match run / 1_000_000 {
        0 => workload_g01,
        1 => workload_templates,
        2 => workload_g05,
        3 => workload_g02,
        _ => workload_deep,
    };
    one_run(Attribution::C03, seed, run, workload, 3).violation
}
