//! Simulation kernel: the simulated host interface, the session driver, the
//! seeded scheduler that sits at every instruction boundary (hook H2) and the
//! observation record compared by the oracles.
use crate::audit::{audit, AuditReport};
use crate::rng::Rng;
use marwood::cell::Cell;
use marwood::error::Error;
use marwood::number::Number;
use marwood::vm::opcode::OpCode;
use marwood::vm::verif::GcMode;
use marwood::vm::{SystemInterface, Vm};
use std::cell::RefCell;
use std::collections::HashSet;
use std::panic::{catch_unwind, AssertUnwindSafe};
use std::rc::Rc;

// ---------------------------------------------------------------------------
// Data values as the oracles see them
// ---------------------------------------------------------------------------

#[derive(Clone, Debug, PartialEq, Eq, Hash)]
pub enum Dv {
    Int(i128),
    Bool(bool),
    Char(char),
    Str(String),
    Sym(String),
    Nil,
    Pair(Box<Dv>, Box<Dv>),
    Vector(Vec<Dv>),
    Proc,
    Cont,
    Void,
    Undefined,
    /// anything the models do not speak about (floats, rationals, macros)
    Other(String),
    /// reference model only: a value R7RS leaves unspecified; equals anything
    Wild,
}

impl Dv {
    pub fn list(items: Vec<Dv>) -> Dv {
        Dv::list_with_tail(items, Dv::Nil)
    }
    pub fn list_with_tail(items: Vec<Dv>, tail: Dv) -> Dv {
        let mut out = tail;
        for it in items.into_iter().rev() {
            out = Dv::Pair(Box::new(it), Box::new(out));
        }
        out
    }
    /// equality in which `Wild` matches anything
    pub fn matches(&self, other: &Dv) -> bool {
        // iterative on cdr
        let mut a = self;
        let mut b = other;
        loop {
            match (a, b) {
                (Dv::Wild, _) | (_, Dv::Wild) => return true,
                (Dv::Pair(a1, a2), Dv::Pair(b1, b2)) => {
                    if !a1.matches(b1) {
                        return false;
                    }
                    a = a2;
                    b = b2;
                }
                (Dv::Vector(x), Dv::Vector(y)) => {
                    return x.len() == y.len() && x.iter().zip(y.iter()).all(|(p, q)| p.matches(q));
                }
                (x, y) => return x == y,
            }
        }
    }
    pub fn show(&self) -> String {
        let mut s = String::new();
        self.show_into(&mut s);
        s
    }
    fn show_into(&self, out: &mut String) {
        use std::fmt::Write;
        match self {
            Dv::Int(i) => {
                let _ = write!(out, "{}", i);
            }
            Dv::Bool(b) => out.push_str(if *b { "#t" } else { "#f" }),
            Dv::Char(c) => crate::sx::write_char(*c, out),
            Dv::Str(s) => crate::sx::write_string(s, out),
            Dv::Sym(s) => out.push_str(s),
            Dv::Nil => out.push_str("()"),
            Dv::Pair(_, _) => {
                out.push('(');
                let mut cur = self;
                let mut first = true;
                loop {
                    match cur {
                        Dv::Pair(a, d) => {
                            if !first {
                                out.push(' ');
                            }
                            first = false;
                            a.show_into(out);
                            cur = d;
                        }
                        Dv::Nil => break,
                        other => {
                            out.push_str(" . ");
                            other.show_into(out);
                            break;
                        }
                    }
                }
                out.push(')');
            }
            Dv::Vector(v) => {
                out.push_str("#(");
                for (i, x) in v.iter().enumerate() {
                    if i > 0 {
                        out.push(' ');
                    }
                    x.show_into(out);
                }
                out.push(')');
            }
            Dv::Proc => out.push_str("#<procedure>"),
            Dv::Cont => out.push_str("#<continuation>"),
            Dv::Void => out.push_str("#<void>"),
            Dv::Undefined => out.push_str("#<undefined>"),
            Dv::Other(s) => {
                let _ = write!(out, "#<other {}>", s);
            }
            Dv::Wild => out.push_str("#<unspecified>"),
        }
    }
}

pub fn number_to_dv(n: &Number) -> Dv {
    match n {
        Number::Fixnum(i) => Dv::Int(*i as i128),
        Number::BigInt(b) => match b.to_string().parse::<i128>() {
            Ok(i) => Dv::Int(i),
            Err(_) => Dv::Other(format!("bigint:{}", b)),
        },
        Number::Float(f) => Dv::Other(format!("float:{:?}", f)),
        Number::Rational(r) => Dv::Other(format!("rational:{}/{}", r.numer(), r.denom())),
    }
}

pub fn cell_to_dv(cell: &Cell) -> Dv {
    match cell {
        Cell::Pair(_, _) => {
            let mut items = vec![];
            let mut cur = cell;
            while let Cell::Pair(a, d) = cur {
                items.push(cell_to_dv(a));
                cur = d;
            }
            let tail = cell_to_dv(cur);
            Dv::list_with_tail(items, tail)
        }
        Cell::Bool(b) => Dv::Bool(*b),
        Cell::Char(c) => Dv::Char(*c),
        Cell::Nil => Dv::Nil,
        Cell::Number(n) => number_to_dv(n),
        Cell::String(s) => Dv::Str(s.clone()),
        Cell::Symbol(s) => Dv::Sym(s.clone()),
        Cell::Vector(v) => Dv::Vector(v.iter().map(cell_to_dv).collect()),
        Cell::Continuation => Dv::Cont,
        Cell::Macro => Dv::Other("macro".into()),
        Cell::Procedure(_) => Dv::Proc,
        Cell::Undefined => Dv::Undefined,
        Cell::Void => Dv::Void,
    }
}

#[derive(Clone, Debug, PartialEq, Eq, Hash)]
pub enum ErrClass {
    Read,
    User,
    Unbound,
    NotProcedure,
    Arity,
    Syntax,
    Type,
    Index,
    Internal,
}

pub fn classify_error(e: &Error) -> ErrClass {
    match e {
        Error::ErrorSignal(_) => ErrClass::User,
        Error::VariableNotBound(_) => ErrClass::Unbound,
        Error::InvalidProcedure(_) => ErrClass::NotProcedure,
        Error::InvalidNumArgs(_) => ErrClass::Arity,
        Error::ParseError(_) | Error::LexError(_) => ErrClass::Read,
        Error::InvalidVectorIndex(_, _) | Error::InvalidStringIndex(_, _) => ErrClass::Index,
        Error::InvalidBytecode | Error::InvalidStackIndex(_) => ErrClass::Internal,
        Error::ExpectedType(_, _) | Error::ExpectedPairButFound(_) => ErrClass::Type,
        Error::InvalidArgs(_, _, _)
        | Error::InvalidUsePrimitive(_)
        | Error::InvalidSyntax(_)
        | Error::LambdaMissingExpression
        | Error::MisplacedMacroKeyword(_)
        | Error::UnquotedNil => ErrClass::Syntax,
    }
}

#[derive(Clone, Debug, PartialEq, Eq)]
pub enum Outcome {
    Value(Dv),
    /// class, Debug rendering of the error value, payload of a user `error`
    Error(ErrClass, String, Option<Vec<Dv>>),
    /// instruction cap of the harness reached
    Diverged,
    /// the library panicked; payload message
    Panic(String),
    /// sliced run: a resume with a positive budget neither completed nor executed an instruction
    Stalled,
}

impl Outcome {
    pub fn is_error(&self) -> bool {
        matches!(self, Outcome::Error(_, _, _))
    }
    pub fn brief(&self) -> String {
        match self {
            Outcome::Value(v) => format!("value {}", v.show()),
            Outcome::Error(c, d, _) => format!("error[{:?}] {}", c, d),
            Outcome::Diverged => "diverged (instruction cap)".into(),
            Outcome::Panic(m) => format!("PANIC {}", m),
            Outcome::Stalled => "stalled (resume made no progress)".into(),
        }
    }
}

#[derive(Clone, Debug, PartialEq, Eq)]
pub struct OutEvent {
    pub write: bool,
    pub value: Dv,
}

#[derive(Clone, Debug, PartialEq, Eq)]
pub struct Obs {
    pub outcome: Outcome,
    pub output: Vec<OutEvent>,
    /// frames of `last_stacktrace()` (Debug rendering), None when no trace
    pub trace: Option<Vec<String>>,
    /// instructions executed by this form
    pub instrs: u64,
    /// stack pointer when the form returned
    pub sp_after: usize,
    /// number of resumes used (sliced runs)
    pub resumes: u64,
}

impl Obs {
    /// The part of an observation that the Scheme program itself can produce:
    /// value/failure and output.
    pub fn same_result(&self, other: &Obs) -> bool {
        self.outcome == other.outcome && self.output == other.output
    }
    pub fn digest_into(&self, h: &mut u64) {
        let s = format!("{:?}|{:?}|{:?}", self.outcome, self.output, self.trace);
        for b in s.bytes() {
            *h ^= b as u64;
            *h = h.wrapping_mul(0x0000_0100_0000_01B3);
        }
    }
}

// ---------------------------------------------------------------------------
// Simulated host
// ---------------------------------------------------------------------------

#[derive(Debug)]
pub struct SimHost {
    pub out: Rc<RefCell<Vec<OutEvent>>>,
    pub clock: Rc<RefCell<u64>>,
}

impl SystemInterface for SimHost {
    fn display(&self, cell: &Cell) {
        self.out.borrow_mut().push(OutEvent {
            write: false,
            value: cell_to_dv(cell),
        });
    }
    fn write(&self, cell: &Cell) {
        self.out.borrow_mut().push(OutEvent {
            write: true,
            value: cell_to_dv(cell),
        });
    }
    fn terminal_dimensions(&self) -> (usize, usize) {
        (80, 24)
    }
    fn time_utc(&self) -> u64 {
        let mut c = self.clock.borrow_mut();
        *c += 1;
        *c
    }
}

// ---------------------------------------------------------------------------
// Schedules
// ---------------------------------------------------------------------------

pub const BOUNDARY_BETWEEN_FORMS: u64 = u64::MAX;

#[derive(Clone, Debug, PartialEq)]
pub enum GcPlan {
    None,
    /// forced collection at every k-th boundary of each form (k >= 1)
    EveryK(u64),
    /// forced collection with probability num/den at each boundary
    Bernoulli(u64, u64),
    /// forced collection with probability num/den at the boundary right after one of the
    /// "interesting" instructions
    AfterInteresting(u64, u64),
    /// forced collection exactly at the listed (form, boundary) points, sorted
    Explicit(Vec<(usize, u64)>),
    /// unforced `run_gc` (production utilisation test) every `cadence` boundaries
    Policy(u64),
}

impl GcPlan {
    pub fn describe(&self) -> String {
        match self {
            GcPlan::None => "none".into(),
            GcPlan::EveryK(k) => format!("every-{}", k),
            GcPlan::Bernoulli(n, d) => format!("bernoulli-{}/{}", n, d),
            GcPlan::AfterInteresting(n, d) => format!("after-interesting-{}/{}", n, d),
            GcPlan::Explicit(v) => format!("explicit[{}]", v.len()),
            GcPlan::Policy(c) => format!("policy-{}", c),
        }
    }
}

#[derive(Clone, Debug, PartialEq)]
pub enum SlicePlan {
    /// uninterrupted: one `run_count` with the instruction cap
    None,
    /// constant budget
    Constant(usize),
    /// random budgets in lo..=hi drawn from the run's PRNG
    Random(usize, usize),
    /// explicit budgets, cycled when exhausted
    Explicit(Vec<usize>),
    /// cut right before the listed instruction indices of each form (learned from a baseline)
    CutsAt(Vec<Vec<u64>>),
}

#[derive(Clone, Copy, Debug, PartialEq, Eq)]
pub enum AuditMode {
    Off,
    /// after every forced collection
    Every,
    /// after every n-th forced collection
    EveryNth(u64),
}

/// What the scheduler closure shares with the driver.
pub struct Ctl {
    pub gc: GcPlan,
    pub explicit_cursor: usize,
    pub rng: Rng,
    pub form: usize,
    pub boundary: u64,
    pub between_forms_gc: bool,
    pub audit: AuditMode,
    pub audits: Vec<(usize, u64, AuditReport)>,
    pub audit_count: u64,
    pub max_audit_findings: usize,
    /// where forced collections fired: the explicit form of the schedule for replay
    pub fired: Vec<(usize, u64)>,
    pub gc_forced: u64,
    pub gc_policy_calls: u64,
    pub gc_freed_nonzero: u64,
    pub contexts: HashSet<u64>,
    pub record_ops: bool,
    /// opcode executed at each boundary of the current form (when record_ops)
    pub ops: Vec<u8>,
    pub prev_op: u8,
    pub probes: Probes,
    /// collections counter of the VM when the scheduler last looked
    pub seen_collections: u64,
    /// production-policy collections observed (not triggered by the scheduler)
    pub gc_production: u64,
    /// unwind out of the VM as soon as an audit finds a corrupted heap (I1/I3/I4)
    pub poisoned: bool,
    /// cells scanned by audits so far, and the budget after which the scheduler stops forcing
    /// collections (the run itself goes on to its instruction cap): a run that a defect has turned
    /// into an endless loop must not be audited a million times. Deterministic: no clock involved.
    pub audit_work: u64,
    pub audit_work_budget: u64,
    pub audit_budget_exhausted: bool,
    /// heap cells / stack slots beyond which a run is stopped (by unwinding out of the VM): a
    /// defect that makes memory grow with the work done must not exhaust the host's memory
    pub mem_ceiling: usize,
    pub stack_ceiling: usize,
    pub saved_stack_ceiling: usize,
    pub ceiling_hit: bool,
}

pub const MEMORY_CEILING_MESSAGE: &str = "verif: memory ceiling reached";

#[derive(Clone, Debug, Default)]
pub struct Probes {
    pub gc_with_live_continuation: u64,
    pub gc_deep_stack: u64,
    pub gc_in_vararg: u64,
    pub heap_grew: u64,
}

pub fn opcode_id(op: &OpCode) -> u8 {
    match op {
        OpCode::Cons => 1,
        OpCode::Jmp => 2,
        OpCode::Jnt => 3,
        OpCode::Mov => 4,
        OpCode::MovImmediate => 5,
        OpCode::Push => 6,
        OpCode::PushAcc => 7,
        OpCode::PushImmediate => 8,
        OpCode::Halt => 9,
        OpCode::VPushAcc => 10,
        OpCode::CallAcc => 11,
        OpCode::ClosureAcc => 12,
        OpCode::Enter => 13,
        OpCode::Ret => 14,
        OpCode::TCallAcc => 15,
        OpCode::VarArg => 16,
    }
}

pub fn opcode_name(id: u8) -> &'static str {
    match id {
        1 => "CONS",
        2 => "JMP",
        3 => "JNT",
        4 => "MOV",
        5 => "MOVI",
        6 => "PUSH",
        7 => "PUSHACC",
        8 => "PUSHI",
        9 => "HALT",
        10 => "VPUSHACC",
        11 => "CALL",
        12 => "CLOSURE",
        13 => "ENTER",
        14 => "RET",
        15 => "TCALL",
        16 => "VARARG",
        _ => "?",
    }
}

fn interesting(op: u8) -> bool {
    // CONS, VPUSHACC, CALL, CLOSURE, ENTER, TCALL, VARARG
    matches!(op, 1 | 10 | 11 | 12 | 13 | 15 | 16)
}

fn vcell_kind(v: &marwood::vm::vcell::VCell) -> u64 {
    use marwood::vm::vcell::VCell::*;
    match v {
        Bool(_) => 1,
        Char(_) => 2,
        Nil => 3,
        Number(_) => 4,
        Pair(_, _) => 5,
        Symbol(_) => 6,
        String(_) => 7,
        Vector(_) => 8,
        Undefined => 9,
        Void => 10,
        Continuation(_) => 11,
        Closure(_, _) => 12,
        Lambda(_) => 13,
        LexicalEnv(_) => 14,
        LexicalEnvSlot(_) => 15,
        LexicalEnvPtr(_, _) => 16,
        Macro(_) => 17,
        Acc => 18,
        ArgumentCount(_) => 19,
        BasePointer(_) => 20,
        BasePointerOffset(_) => 21,
        BuiltInProc(_) => 22,
        EnvironmentPointer(_) => 23,
        GlobalEnvSlot(_) => 24,
        InstructionPointer(_, _) => 25,
        OpCode(_) => 26,
        Ptr(_) => 27,
    }
}

/// (next opcode, previous opcode, kinds of the four top stack slots, acc kind)
fn context_hash(vm: &Vm, next: u8, prev: u8) -> u64 {
    let mut h = (next as u64) << 8 | prev as u64;
    let stack = vm.verif_stack();
    let sp = stack.get_sp();
    let heap = vm.verif_heap().verif_cells();
    let kind_deref = |v: &marwood::vm::vcell::VCell| -> u64 {
        match v {
            marwood::vm::vcell::VCell::Ptr(p) => {
                100 + heap.get(*p).map(vcell_kind).unwrap_or(99)
            }
            other => vcell_kind(other),
        }
    };
    for i in 0..4 {
        let k = if sp >= i {
            stack.get(sp - i).map(kind_deref).unwrap_or(0)
        } else {
            0
        };
        h = h.wrapping_mul(131).wrapping_add(k);
    }
    h = h.wrapping_mul(131).wrapping_add(kind_deref(vm.verif_acc()));
    h
}

impl Ctl {
    pub fn new(gc: GcPlan, rng: Rng) -> Ctl {
        Ctl {
            gc,
            explicit_cursor: 0,
            rng,
            form: 0,
            boundary: 0,
            between_forms_gc: false,
            audit: AuditMode::Off,
            audits: vec![],
            audit_count: 0,
            max_audit_findings: 4,
            fired: vec![],
            gc_forced: 0,
            gc_policy_calls: 0,
            gc_freed_nonzero: 0,
            contexts: HashSet::new(),
            record_ops: false,
            ops: vec![],
            prev_op: 0,
            probes: Probes::default(),
            seen_collections: 0,
            gc_production: 0,
            poisoned: false,
            audit_work: 0,
            audit_work_budget: 600_000_000,
            audit_budget_exhausted: false,
            mem_ceiling: 6_000_000,
            stack_ceiling: 6_000_000,
            saved_stack_ceiling: 12_000_000,
            ceiling_hit: false,
        }
    }

    /// audit bookkeeping shared by forced, policy and production collections
    fn audit_now(&mut self, vm: &Vm) {
        self.audit_count += 1;
        let report = audit(vm);
        // an audit walks the heap and the stack
        self.audit_work += report.capacity as u64 + vm.verif_stack().get_sp() as u64;
        if report.live_continuations > 0 {
            self.probes.gc_with_live_continuation += 1;
        }
        let dangerous = report
            .findings
            .iter()
            .any(|f| matches!(f.invariant, "I1" | "I3" | "I4"));
        if !report.findings.is_empty() && self.audits.len() < self.max_audit_findings {
            self.audits.push((self.form, self.boundary, report));
        }
        if dangerous {
            self.poisoned = true;
        }
    }

    /// A collection that the VM's own policy ran since the scheduler last looked
    /// (every 8192 cycles, at a slice end, after an evaluation).
    pub fn note_production_gc(&mut self, vm: &Vm) {
        let now = vm.verif_state().collections;
        if now != self.seen_collections {
            self.gc_production += now - self.seen_collections;
            self.seen_collections = now;
            if vm.verif_state().last_freed > 0 {
                self.gc_freed_nonzero += 1;
            }
            if !matches!(self.audit, AuditMode::Off) {
                self.audit_now(vm);
            }
        }
    }

    fn want_gc(&mut self, next_op: u8) -> bool {
        let b = self.boundary;
        match &self.gc {
            GcPlan::None | GcPlan::Policy(_) => false,
            GcPlan::EveryK(k) => b % *k == 0,
            GcPlan::Bernoulli(n, d) => {
                let (n, d) = (*n, *d);
                self.rng.chance(n, d)
            }
            GcPlan::AfterInteresting(n, d) => {
                let (n, d) = (*n, *d);
                let _ = next_op;
                interesting(self.prev_op) && self.rng.chance(n, d)
            }
            GcPlan::Explicit(points) => {
                let mut hit = false;
                while self.explicit_cursor < points.len() {
                    let (f, pb) = points[self.explicit_cursor];
                    if f < self.form || (f == self.form && pb < b) {
                        self.explicit_cursor += 1;
                    } else if f == self.form && pb == b {
                        self.explicit_cursor += 1;
                        hit = true;
                    } else {
                        break;
                    }
                }
                hit
            }
        }
    }

    pub fn forced_collect(&mut self, vm: &mut Vm, next_op: u8) {
        let cap_before = vm.verif_heap().capacity();
        vm.verif_collect();
        self.audit_work += (cap_before / 4) as u64;
        self.gc_forced += 1;
        self.fired.push((self.form, self.boundary));
        if vm.verif_state().last_freed > 0 {
            self.gc_freed_nonzero += 1;
        }
        if vm.verif_heap().capacity() > cap_before {
            self.probes.heap_grew += 1;
        }
        if vm.verif_stack().get_sp() > 1000 {
            self.probes.gc_deep_stack += 1;
        }
        if next_op == 16 || self.prev_op == 16 {
            self.probes.gc_in_vararg += 1;
        }
        let ctx = context_hash(vm, next_op, self.prev_op);
        self.contexts.insert(ctx);
        let do_audit = match self.audit {
            AuditMode::Off => false,
            AuditMode::Every => true,
            AuditMode::EveryNth(n) => self.gc_forced % n == 0,
        };
        self.seen_collections = vm.verif_state().collections;
        if do_audit {
            self.audit_now(vm);
        }
    }

    /// Called from the H2 hook before every instruction.
    pub fn on_boundary(&mut self, vm: &mut Vm) {
        self.note_production_gc(vm);
        if self.poisoned {
            panic!("verif: heap audit found a corrupted heap; run stopped");
        }
        let stack_len = vm.verif_stack().len();
        if self.boundary % (if stack_len > 65536 { 256 } else { 2048 }) == 0 {
            if vm.verif_heap().capacity() > self.mem_ceiling || stack_len > self.stack_ceiling {
                self.ceiling_hit = true;
                panic!("{}: heap capacity {} cells, stack {} slots", MEMORY_CEILING_MESSAGE, vm.verif_heap().capacity(), stack_len);
            }
            // every continuation in the heap (live or not yet swept) holds a copy of the stack: with
            // a large stack that is where memory goes
            if stack_len > 1024 || self.boundary % 32768 == 0 {
                let mut saved = 0usize;
                for c in vm.verif_heap().verif_cells() {
                    if let marwood::vm::vcell::VCell::Continuation(k) = c {
                        saved += k.stack().len();
                    }
                }
                if saved > self.saved_stack_ceiling {
                    self.ceiling_hit = true;
                    panic!("{}: continuations hold {} saved stack slots", MEMORY_CEILING_MESSAGE, saved);
                }
            }
        }
        let next_op = vm.verif_next_opcode().map(|o| opcode_id(&o)).unwrap_or(0);
        if self.record_ops {
            self.ops.push(next_op);
        }
        if let GcPlan::Policy(c) = self.gc {
            if c > 0 && self.boundary % c == c - 1 {
                let before = vm.verif_state().collections;
                let cap_before = vm.verif_heap().capacity();
                vm.run_gc();
                self.gc_policy_calls += 1;
                if vm.verif_state().collections > before {
                    self.fired.push((self.form, self.boundary));
                    if vm.verif_state().last_freed > 0 {
                        self.gc_freed_nonzero += 1;
                    }
                    if vm.verif_heap().capacity() > cap_before {
                        self.probes.heap_grew += 1;
                    }
                    self.seen_collections = vm.verif_state().collections;
                    if !matches!(self.audit, AuditMode::Off) {
                        self.audit_now(vm);
                    }
                }
            }
        } else if self.want_gc(next_op) {
            if self.audit_work > self.audit_work_budget {
                self.audit_budget_exhausted = true;
            } else {
                self.forced_collect(vm, next_op);
            }
        }
        if self.poisoned {
            panic!("verif: heap audit found a corrupted heap; run stopped");
        }
        self.prev_op = next_op;
        self.boundary += 1;
    }
}

// ---------------------------------------------------------------------------
// The session driver
// ---------------------------------------------------------------------------

#[derive(Clone, Debug)]
pub struct Knobs {
    pub slot_order_seed: u64,
    pub heap_chunk: usize,
}

impl Default for Knobs {
    fn default() -> Self {
        Knobs {
            slot_order_seed: 0,
            heap_chunk: 8192,
        }
    }
}

pub struct Sim {
    pub vm: Vm,
    pub out: Rc<RefCell<Vec<OutEvent>>>,
    pub ctl: Rc<RefCell<Ctl>>,
    pub slices: SlicePlan,
    pub slice_rng: Rng,
    pub slice_cursor: usize,
    pub instr_cap: u64,
    pub form_index: usize,
    pub dead: bool,
    pub slice_cuts: u64,
    pub knobs: Knobs,
}

thread_local! {
    static LAST_PANIC: RefCell<String> = const { RefCell::new(String::new()) };
}

pub fn install_panic_hook() {
    std::panic::set_hook(Box::new(|info| {
        let msg = if let Some(s) = info.payload().downcast_ref::<&str>() {
            s.to_string()
        } else if let Some(s) = info.payload().downcast_ref::<String>() {
            s.clone()
        } else {
            "panic".to_string()
        };
        let loc = info
            .location()
            .map(|l| format!("{}:{}", l.file(), l.line()))
            .unwrap_or_default();
        LAST_PANIC.with(|p| *p.borrow_mut() = format!("{} at {}", msg, loc));
    }));
}

pub fn last_panic() -> String {
    LAST_PANIC.with(|p| p.borrow().clone())
}

impl Sim {
    pub fn new(knobs: &Knobs, gc: GcPlan, slices: SlicePlan, sched_seed: u64) -> Sim {
        marwood::vm::verif::set_slot_order_seed(knobs.slot_order_seed);
        let mut vm = if knobs.heap_chunk == 8192 {
            Vm::new()
        } else {
            Vm::verif_with_chunk(knobs.heap_chunk)
        };
        let out = Rc::new(RefCell::new(vec![]));
        vm.set_system_interface(Box::new(SimHost {
            out: out.clone(),
            clock: Rc::new(RefCell::new(0)),
        }));
        let mut rng = Rng::new(sched_seed);
        let gc_rng = rng.fork();
        let slice_rng = rng.fork();
        let ctl = Rc::new(RefCell::new(Ctl::new(gc, gc_rng)));
        let ctl2 = ctl.clone();
        vm.verif_set_scheduler(Some(Box::new(move |vm: &mut Vm| {
            ctl2.borrow_mut().on_boundary(vm);
        })));
        // instructions executed by the prelude do not count as simulated time of the run
        vm.verif_state_mut().instructions = 0;
        vm.verif_state_mut().max_sp = 0;
        Sim {
            vm,
            out,
            ctl,
            slices,
            slice_rng,
            slice_cursor: 0,
            instr_cap: 2_000_000,
            form_index: 0,
            dead: false,
            slice_cuts: 0,
            knobs: knobs.clone(),
        }
    }

    /// Ballast: a live list sized so that heap utilisation sits just below the production
    /// collector's 75 % threshold; the session's own garbage then makes the production trigger
    /// (every 8192 cycles, at a slice end, after an evaluation) really collect. Not a form of the
    /// session: evaluated directly, before the first form.
    pub fn add_ballast(&mut self, target: f64) -> usize {
        let mut total = 0usize;
        for round in 0..3 {
            self.vm.verif_collect();
            if self.ballast_audit() {
                return total;
            }
            let cap = self.vm.verif_heap().capacity() as f64;
            let used = self.vm.verif_heap().used_size() as f64;
            let missing = target * cap - used;
            if missing < 8.0 {
                break;
            }
            let n = (missing / 2.0) as usize;
            let text = format!(
                "(define %ballast{} (let loop ((i 0) (acc '())) (if (< i {}) (loop (+ i 1) (cons i acc)) acc)))",
                round, n
            );
            let saved = self.vm.verif_state().gc_mode;
            self.vm.verif_state_mut().gc_mode = GcMode::Suppress;
            let _ = self.vm.eval_text(&text);
            self.vm.verif_state_mut().gc_mode = saved;
            total += n;
        }
        self.vm.verif_collect();
        if self.ballast_audit() {
            return total;
        }
        {
            let mut c = self.ctl.borrow_mut();
            c.seen_collections = self.vm.verif_state().collections;
            c.boundary = 0;
        }
        self.vm.verif_state_mut().instructions = 0;
        self.vm.verif_state_mut().max_sp = 0;
        total
    }

    /// the ballast's own collections are audited too: a corrupted heap ends the run at once
    fn ballast_audit(&mut self) -> bool {
        let report = crate::audit::audit_with(&self.vm, true);
        let dangerous = report.findings.iter().any(|f| matches!(f.invariant, "I1" | "I3" | "I4"));
        if !report.findings.is_empty() {
            let mut c = self.ctl.borrow_mut();
            c.audit_count += 1;
            if c.audits.len() < c.max_audit_findings {
                c.audits.push((0, 0, report));
            }
        }
        if dangerous {
            self.ctl.borrow_mut().poisoned = true;
            self.dead = true;
        }
        dangerous
    }

    pub fn set_gc_mode(&mut self, mode: GcMode) {
        self.vm.verif_state_mut().gc_mode = mode;
    }

    fn next_budget(&mut self, form: usize, done: u64) -> usize {
        match &self.slices {
            SlicePlan::None => usize::MAX,
            SlicePlan::Constant(b) => *b,
            SlicePlan::Random(lo, hi) => {
                let (lo, hi) = (*lo, *hi);
                self.slice_rng.range(lo as i64, hi as i64) as usize
            }
            SlicePlan::Explicit(v) => {
                if v.is_empty() {
                    return usize::MAX;
                }
                let b = v[self.slice_cursor % v.len()];
                self.slice_cursor += 1;
                b
            }
            SlicePlan::CutsAt(per_form) => {
                // next cut strictly after `done`
                if let Some(cuts) = per_form.get(form) {
                    for c in cuts {
                        if *c > done {
                            return (*c - done) as usize;
                        }
                    }
                }
                usize::MAX
            }
        }
    }

    /// Evaluate one top-level form given as text, under the installed schedule.
    pub fn eval_form(&mut self, text: &str) -> Obs {
        let form = self.form_index;
        self.form_index += 1;
        if self.dead {
            return Obs {
                outcome: Outcome::Panic("vm dead after earlier panic or audit finding".into()),
                output: vec![],
                trace: None,
                instrs: 0,
                sp_after: 0,
                resumes: 0,
            };
        }
        self.out.borrow_mut().clear();
        {
            let mut c = self.ctl.borrow_mut();
            c.form = form;
            c.boundary = 0;
            c.prev_op = 0;
            if c.record_ops {
                c.ops.clear();
            }
        }
        let start_instr = self.vm.verif_state().instructions;
        let cap = self.instr_cap;
        let mut resumes = 0u64;
        let sliced = !matches!(self.slices, SlicePlan::None);
        let mut cuts = 0u64;
        let mut stalled = 0u32;
        // the budget sequence is drawn outside the unwind boundary so that it is deterministic
        let result = {
            let this = &mut *self;
            catch_unwind(AssertUnwindSafe(|| -> Result<Option<Cell>, Error> {
                let (cell, _rest) = marwood::parse::parse_text(text)?;
                let prepared = this.vm.prepare_eval(&cell);
                {
                    // a form that the compiler rejects makes the VM collect inside prepare_eval:
                    // audit that collection now, while the roots are still those it ran with
                    let mut c = this.ctl.borrow_mut();
                    c.note_production_gc(&this.vm);
                    if c.poisoned {
                        drop(c);
                        panic!("verif: heap audit found a corrupted heap; run stopped");
                    }
                }
                prepared?;
                loop {
                    let done = this.vm.verif_state().instructions - start_instr;
                    if done >= cap {
                        return Ok(None);
                    }
                    let remaining = cap - done;
                    let budget = if sliced {
                        this.next_budget(form, done)
                    } else {
                        usize::MAX
                    };
                    let eff = if (budget as u64) <= remaining {
                        budget
                    } else {
                        remaining as usize
                    };
                    resumes += 1;
                    let r = this.vm.run_count(eff);
                    {
                        let mut c = this.ctl.borrow_mut();
                        c.note_production_gc(&this.vm);
                        if c.poisoned {
                            drop(c);
                            panic!("verif: heap audit found a corrupted heap; run stopped");
                        }
                    }
                    match r? {
                        Some(cell) => return Ok(Some(cell)),
                        None => {
                            if eff == budget {
                                cuts += 1;
                            }
                            // progress: a resume with a positive budget must execute
                            // at least one instruction
                            let now = this.vm.verif_state().instructions - start_instr;
                            if now == done {
                                stalled += 1;
                                if stalled >= 3 {
                                    return Ok(None);
                                }
                            } else {
                                stalled = 0;
                            }
                        }
                    }
                }
            }))
        };
        self.slice_cuts += cuts;
        let instrs = self.vm.verif_state().instructions - start_instr;
        let outcome = match result {
            Ok(Ok(Some(cell))) => Outcome::Value(cell_to_dv(&cell)),
            Ok(Ok(None)) if stalled >= 3 => Outcome::Stalled,
            Ok(Ok(None)) => Outcome::Diverged,
            Ok(Err(e)) => {
                let payload = match &e {
                    Error::ErrorSignal(v) => Some(v.iter().map(cell_to_dv).collect()),
                    _ => None,
                };
                Outcome::Error(classify_error(&e), format!("{:?}", e), payload)
            }
            Err(_) => {
                self.dead = true;
                Outcome::Panic(last_panic())
            }
        };
        let trace = if self.dead {
            None
        } else {
            self.vm.last_stacktrace().map(|t| {
                t.frames
                    .iter()
                    .map(|f| format!("{:?}/{:?}", f.name, f.desc.as_ref().map(cell_to_dv)))
                    .collect()
            })
        };
        let output = self.out.borrow().clone();
        let sp_after = if self.dead {
            0
        } else {
            self.vm.verif_stack().get_sp()
        };
        // optional collection between forms
        if !self.dead && !matches!(outcome, Outcome::Diverged | Outcome::Stalled) {
            let between = self.ctl.borrow().between_forms_gc;
            if between {
                let r = catch_unwind(AssertUnwindSafe(|| {
                    let mut c = self.ctl.borrow_mut();
                    c.boundary = BOUNDARY_BETWEEN_FORMS;
                    c.forced_collect(&mut self.vm, 0);
                }));
                if r.is_err() || self.ctl.borrow().poisoned {
                    self.dead = true;
                }
            }
        }
        if matches!(outcome, Outcome::Diverged | Outcome::Stalled) {
            // the VM is in the middle of an evaluation; it cannot be reused meaningfully
            self.dead = true;
        }
        Obs {
            outcome,
            output,
            trace,
            instrs,
            sp_after,
            resumes,
        }
    }

    pub fn run_session(&mut self, forms: &[String]) -> Vec<Obs> {
        forms.iter().map(|f| self.eval_form(f)).collect()
    }
}

pub fn install_thread_state() {
    marwood::vm::verif::set_slot_order_seed(0);
}
