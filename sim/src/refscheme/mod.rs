//! RefScheme — the executable reference for C01, C02, C05, C07 (DESIGN §4.1).
pub mod ast;
pub mod casefold_table;
pub mod machine;
pub mod value;
