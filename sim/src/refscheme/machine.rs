//! The reference CEK machine: explicit continuations (persistent frame list ending in Halt),
//! first-class continuations, left-to-right operand evaluation with the operator last.
use super::ast::*;
use super::value::*;
use crate::kernel::{Dv, OutEvent};
use crate::sx::Sx;
use std::cell::RefCell;
use std::collections::HashMap;
use std::rc::Rc;

pub struct Env {
    pub vars: RefCell<Vec<(Name, Loc)>>,
    pub parent: Option<Rc<Env>>,
}

impl Env {
    fn lookup(&self, name: &str) -> Option<Loc> {
        let mut cur = Some(self);
        while let Some(e) = cur {
            for (n, l) in e.vars.borrow().iter().rev() {
                if &**n == name {
                    return Some(l.clone());
                }
            }
            cur = e.parent.as_deref();
        }
        None
    }
}

type EnvRef = Option<Rc<Env>>;

pub enum Frame {
    Halt,
    If(Rc<Ex>, Option<Rc<Ex>>, EnvRef, Rc<Frame>),
    Seq(Rc<Vec<Rc<Ex>>>, usize, EnvRef, Rc<Frame>),
    Define(Name, EnvRef, Rc<Frame>),
    Set(Name, EnvRef, Rc<Frame>),
    /// evaluating operand `idx`; `done` holds the values of the earlier ones
    Arg(Rc<Ex>, Rc<Vec<Rc<Ex>>>, usize, Rc<Vec<V>>, EnvRef, Rc<Frame>),
    /// evaluating the operator; operands are done
    Op(Rc<Vec<V>>, Rc<Frame>),
    And(Rc<Vec<Rc<Ex>>>, usize, EnvRef, Rc<Frame>),
    Or(Rc<Vec<Rc<Ex>>>, usize, EnvRef, Rc<Frame>),
    /// when (negate=false) / unless (negate=true)
    When(Rc<Vec<Rc<Ex>>>, bool, EnvRef, Rc<Frame>),
    CondTest(Rc<Vec<CondClause>>, usize, EnvRef, Rc<Frame>),
    /// the receiver of `=>` is being evaluated; apply it to the saved value
    Arrow(V, Rc<Frame>),
    CaseKey(Rc<Vec<CaseClause>>, EnvRef, Rc<Frame>),
    Letrec(Rc<Vec<Name>>, Rc<Vec<Rc<Ex>>>, usize, Rc<LambdaDef>, Rc<Env>, Rc<Frame>),
    Force(Rc<PromiseObj>, Rc<Frame>),
}

#[derive(Clone, Debug, PartialEq)]
pub enum Abort {
    /// the program fails; payload of a user `error`
    Error(&'static str, Option<Vec<Dv>>),
    /// the outcome is not fixed by R7RS: the run must not be compared
    Unspecified(&'static str),
    StepBound,
}

enum Control {
    Eval(Rc<Ex>, EnvRef),
    /// evaluate a borrowed node (cloned cheaply where needed)
    Return(V),
}

#[derive(Clone, Debug, PartialEq)]
pub enum RefOutcome {
    Value(Dv),
    Error(&'static str, Option<Vec<Dv>>),
    Discard(String),
}

pub struct RefObs {
    pub outcome: RefOutcome,
    pub output: Vec<OutEvent>,
    pub steps: u64,
}

pub struct Machine {
    pub globals: HashMap<String, Loc>,
    pub output: Vec<OutEvent>,
    pub steps: u64,
    pub step_limit: u64,
    /// continuation invoked after its extent ended / from a later form (reach probes)
    pub reentries: u64,
    pub cont_invocations: u64,
    form_serial: u64,
}

const PRIMS: &[&str] = &[
    "+", "-", "*", "=", "<", ">", "<=", ">=", "not", "null?", "pair?", "eq?", "eqv?", "equal?", "car", "cdr", "cons", "list",
    "length", "append", "reverse", "list-ref", "list-tail", "memq", "memv", "member", "assq", "assv", "assoc", "vector",
    "make-vector", "vector-ref", "vector-set!", "vector-fill!", "vector-copy", "vector-copy!", "vector-length", "vector->list", "list->vector", "set-car!", "set-cdr!",
    "apply", "call/cc", "call-with-current-continuation", "eval", "force", "error", "display", "write", "symbol?",
    "procedure?", "vector?", "string?", "boolean?", "number?", "integer?", "char?", "list?", "zero?", "string-length",
    "cadr", "cddr", "caar", "cdar", "abs", "min", "max", "even?", "odd?", "positive?", "negative?", "quotient",
    "remainder", "modulo", "%inject", "string-ref", "string-set!", "substring", "string-copy", "string-fill!", "string->list",
    "string->vector", "vector->string", "list->string", "string", "make-string", "string-append", "string=?", "string<?",
    "string>?", "string<=?", "string>=?", "string-ci=?", "string-ci<?", "string-ci>?", "string-ci<=?", "string-ci>=?",
    "string-upcase", "string-downcase", "string-foldcase", "char->integer", "integer->char", "char-upcase", "char-downcase",
    "char-foldcase", "char=?", "char<?", "char>?", "char<=?", "char>=?", "char-ci=?", "char-ci<?", "char-ci>?", "char-ci<=?",
    "char-ci>=?", "char-alphabetic?", "char-numeric?", "char-whitespace?", "char-upper-case?", "char-lower-case?", "%any-null?", "%cars", "%cdrs", "%list*", "%vector", "newline", "add1", "sub1",
];

const MODEL_PRELUDE: &str = "
(define (map f . ls)
  (if (%any-null? ls)
      '()
      (cons (apply f (%cars ls)) (apply map f (%cdrs ls)))))
(define (for-each f . ls)
  (if (%any-null? ls)
      (if #f #f)
      (begin (apply f (%cars ls)) (apply for-each f (%cdrs ls)))))
";

fn type_err() -> Abort {
    Abort::Error("type", None)
}

impl Machine {
    pub fn new() -> Machine {
        let mut m = Machine {
            globals: HashMap::new(),
            output: vec![],
            steps: 0,
            step_limit: 400_000,
            reentries: 0,
            cont_invocations: 0,
            form_serial: 0,
        };
        for p in PRIMS {
            m.globals.insert(p.to_string(), Rc::new(RefCell::new(V::Prim(p))));
        }
        for form in crate::sx::read_all(MODEL_PRELUDE).expect("model prelude") {
            let r = m.run_form(&form);
            assert!(matches!(r.outcome, RefOutcome::Value(_)), "model prelude failed");
        }
        m
    }

    fn lookup(&self, name: &str, env: &EnvRef) -> Result<Loc, Abort> {
        if let Some(e) = env {
            if let Some(l) = e.lookup(name) {
                return Ok(l);
            }
        }
        match self.globals.get(name) {
            Some(l) => Ok(l.clone()),
            None => Err(Abort::Error("unbound", None)),
        }
    }

    /// Evaluate one top-level form.
    pub fn run_form(&mut self, form: &Sx) -> RefObs {
        self.output.clear();
        self.form_serial += 1;
        let start = self.steps;
        let limit = self.steps + self.step_limit;
        let ex = match compile(form) {
            Ok(ex) => Rc::new(ex),
            Err(_) => {
                return RefObs {
                    outcome: RefOutcome::Error("syntax", None),
                    output: vec![],
                    steps: 0,
                }
            }
        };
        let result = self.run(Control::Eval(ex, None), Rc::new(Frame::Halt), limit);
        let outcome = match result {
            Ok(v) => RefOutcome::Value(v.to_dv()),
            Err(Abort::Error(kind, payload)) => RefOutcome::Error(kind, payload),
            Err(Abort::Unspecified(why)) => RefOutcome::Discard(format!("unspecified: {}", why)),
            Err(Abort::StepBound) => RefOutcome::Discard("step bound".into()),
        };
        RefObs {
            outcome,
            output: self.output.clone(),
            steps: self.steps - start,
        }
    }

    fn new_frame_env(def: &Rc<LambdaDef>, args: Vec<V>, parent: EnvRef) -> Result<Rc<Env>, Abort> {
        let np = def.params.len();
        if args.len() < np || (def.rest.is_none() && args.len() != np) {
            return Err(Abort::Error("arity", None));
        }
        let mut vars: Vec<(Name, Loc)> = Vec::with_capacity(np + 1 + def.internal.len());
        let mut it = args.into_iter();
        for p in &def.params {
            vars.push((p.clone(), Rc::new(RefCell::new(it.next().unwrap()))));
        }
        if let Some(r) = &def.rest {
            let rest: Vec<V> = it.collect();
            vars.push((r.clone(), Rc::new(RefCell::new(V::list(rest)))));
        }
        for n in &def.internal {
            vars.push((n.clone(), Rc::new(RefCell::new(V::Unassigned))));
        }
        Ok(Rc::new(Env {
            vars: RefCell::new(vars),
            parent,
        }))
    }

    /// Enter the body of a lambda definition in a fresh environment frame.
    fn enter_body(def: &Rc<LambdaDef>, env: Rc<Env>, k: Rc<Frame>) -> (Control, Rc<Frame>) {
        let body = def.body.clone();
        Self::seq(body, 0, Some(env), k)
    }

    fn seq(exprs: Rc<Vec<Rc<Ex>>>, idx: usize, env: EnvRef, k: Rc<Frame>) -> (Control, Rc<Frame>) {
        if exprs.is_empty() {
            return (Control::Return(V::Unspec), k);
        }
        let last = idx + 1 == exprs.len();
        let ex = ex_at(&exprs, idx);
        if last {
            (Control::Eval(ex, env), k)
        } else {
            (Control::Eval(ex, env.clone()), Rc::new(Frame::Seq(exprs, idx + 1, env, k)))
        }
    }

    fn run(&mut self, mut control: Control, mut k: Rc<Frame>, limit: u64) -> Result<V, Abort> {
        loop {
            self.steps += 1;
            if self.steps > limit {
                return Err(Abort::StepBound);
            }
            match control {
                Control::Eval(ex, env) => {
                    let (c, nk) = self.eval(&ex, env, k)?;
                    control = c;
                    k = nk;
                }
                Control::Return(v) => {
                    let frame = k.clone();
                    match &*frame {
                        Frame::Halt => return Ok(v),
                        Frame::If(then, els, env, next) => {
                            if matches!(v, V::Unspec | V::Unassigned) {
                                return Err(Abort::Unspecified("test value is unspecified"));
                            }
                            if v.is_true() {
                                control = Control::Eval(then.clone(), env.clone());
                            } else {
                                match els {
                                    Some(e) => control = Control::Eval(e.clone(), env.clone()),
                                    None => control = Control::Return(V::Unspec),
                                }
                            }
                            k = next.clone();
                        }
                        Frame::Seq(exprs, idx, env, next) => {
                            let (c, nk) = Self::seq(exprs.clone(), *idx, env.clone(), next.clone());
                            control = c;
                            k = nk;
                        }
                        Frame::Define(name, env, next) => {
                            match env {
                                None => {
                                    match self.globals.get(&**name) {
                                        Some(loc) => *loc.borrow_mut() = v,
                                        None => {
                                            self.globals.insert(name.to_string(), Rc::new(RefCell::new(v)));
                                        }
                                    }
                                }
                                Some(e) => {
                                    let found = e.vars.borrow().iter().rev().find(|(n, _)| n == name).map(|(_, l)| l.clone());
                                    match found {
                                        Some(loc) => *loc.borrow_mut() = v,
                                        None => e.vars.borrow_mut().push((name.clone(), Rc::new(RefCell::new(v)))),
                                    }
                                }
                            }
                            control = Control::Return(V::Unspec);
                            k = next.clone();
                        }
                        Frame::Set(name, env, next) => {
                            // R7RS: "it is an error" to set! an unbound variable; implementations
                            // need not detect it
                            let loc = self
                                .lookup(name, env)
                                .map_err(|_| Abort::Unspecified("set! of an unbound variable"))?;
                            *loc.borrow_mut() = v;
                            control = Control::Return(V::Unspec);
                            k = next.clone();
                        }
                        Frame::Arg(f, args, idx, done, env, next) => {
                            let mut done2: Vec<V> = (**done).clone();
                            done2.push(v);
                            let nidx = idx + 1;
                            if nidx < args.len() {
                                control = Control::Eval(ex_at(args, nidx), env.clone());
                                k = Rc::new(Frame::Arg(f.clone(), args.clone(), nidx, Rc::new(done2), env.clone(), next.clone()));
                            } else {
                                control = Control::Eval(f.clone(), env.clone());
                                k = Rc::new(Frame::Op(Rc::new(done2), next.clone()));
                            }
                        }
                        Frame::Op(args, next) => {
                            let (c, nk) = self.apply(v, (**args).clone(), next.clone())?;
                            control = c;
                            k = nk;
                        }
                        Frame::And(exprs, idx, env, next) => {
                            if matches!(v, V::Unspec | V::Unassigned) {
                                return Err(Abort::Unspecified("test value is unspecified"));
                            }
                            if !v.is_true() {
                                control = Control::Return(v);
                                k = next.clone();
                            } else {
                                let (c, nk) = Self::and_or(exprs.clone(), *idx, env.clone(), next.clone(), true);
                                control = c;
                                k = nk;
                            }
                        }
                        Frame::Or(exprs, idx, env, next) => {
                            if matches!(v, V::Unspec | V::Unassigned) {
                                return Err(Abort::Unspecified("test value is unspecified"));
                            }
                            if v.is_true() {
                                control = Control::Return(v);
                                k = next.clone();
                            } else {
                                let (c, nk) = Self::and_or(exprs.clone(), *idx, env.clone(), next.clone(), false);
                                control = c;
                                k = nk;
                            }
                        }
                        Frame::When(body, negate, env, next) => {
                            if matches!(v, V::Unspec | V::Unassigned) {
                                return Err(Abort::Unspecified("test value is unspecified"));
                            }
                            if v.is_true() != *negate {
                                let (c, nk) = Self::seq(body.clone(), 0, env.clone(), next.clone());
                                control = c;
                                k = nk;
                            } else {
                                control = Control::Return(V::Unspec);
                                k = next.clone();
                            }
                        }
                        Frame::CondTest(clauses, idx, env, next) => {
                            if matches!(v, V::Unspec | V::Unassigned) {
                                return Err(Abort::Unspecified("test value is unspecified"));
                            }
                            let clause = &clauses[*idx];
                            if v.is_true() {
                                if let Some(_) = &clause.arrow {
                                    let recv = clause.arrow.clone().unwrap();
                                    control = Control::Eval(recv, env.clone());
                                    k = Rc::new(Frame::Arrow(v, next.clone()));
                                } else if clause.body.is_empty() {
                                    control = Control::Return(v);
                                    k = next.clone();
                                } else {
                                    let (c, nk) = Self::seq(clause.body.clone(), 0, env.clone(), next.clone());
                                    control = c;
                                    k = nk;
                                }
                            } else {
                                let (c, nk) = Self::cond(clauses.clone(), idx + 1, env.clone(), next.clone());
                                control = c;
                                k = nk;
                            }
                        }
                        Frame::Arrow(value, next) => {
                            let (c, nk) = self.apply(v, vec![value.clone()], next.clone())?;
                            control = c;
                            k = nk;
                        }
                        Frame::CaseKey(clauses, env, next) => {
                            if matches!(v, V::Unspec | V::Unassigned) {
                                return Err(Abort::Unspecified("case key is unspecified"));
                            }
                            let mut chosen = None;
                            for (i, c) in clauses.iter().enumerate() {
                                match &c.datums {
                                    None => {
                                        chosen = Some(i);
                                        break;
                                    }
                                    Some(ds) => {
                                        let mut hit = false;
                                        for d in ds {
                                            match eqv(&v, d) {
                                                Some(true) => {
                                                    hit = true;
                                                    break;
                                                }
                                                Some(false) => {}
                                                None => return Err(Abort::Unspecified("eqv? in case is unspecified")),
                                            }
                                        }
                                        if hit {
                                            chosen = Some(i);
                                            break;
                                        }
                                    }
                                }
                            }
                            match chosen {
                                None => {
                                    control = Control::Return(V::Unspec);
                                    k = next.clone();
                                }
                                Some(i) => {
                                    if clauses[i].arrow.is_some() {
                                        control = Control::Eval(clauses[i].arrow.clone().unwrap(), env.clone());
                                        k = Rc::new(Frame::Arrow(v, next.clone()));
                                    } else {
                                        let (c, nk) = Self::seq(clauses[i].body.clone(), 0, env.clone(), next.clone());
                                        control = c;
                                        k = nk;
                                    }
                                }
                            }
                        }
                        Frame::Letrec(names, inits, idx, lam, env, next) => {
                            // assign the init just evaluated
                            let loc = env.lookup(&names[*idx]).expect("letrec variable");
                            *loc.borrow_mut() = v;
                            let nidx = idx + 1;
                            if nidx < inits.len() {
                                control = Control::Eval(ex_at(inits, nidx), Some(env.clone()));
                                k = Rc::new(Frame::Letrec(names.clone(), inits.clone(), nidx, lam.clone(), env.clone(), next.clone()));
                            } else {
                                let body_env = Self::new_frame_env(lam, vec![], Some(env.clone()))?;
                                let (c, nk) = Self::enter_body(lam, body_env, next.clone());
                                control = c;
                                k = nk;
                            }
                        }
                        Frame::Force(p, next) => {
                            if *p.done.borrow() {
                                let val = p.payload.borrow().clone();
                                control = Control::Return(val);
                            } else {
                                *p.done.borrow_mut() = true;
                                *p.payload.borrow_mut() = v.clone();
                                control = Control::Return(v);
                            }
                            k = next.clone();
                        }
                    }
                }
            }
        }
    }

    fn and_or(exprs: Rc<Vec<Rc<Ex>>>, idx: usize, env: EnvRef, k: Rc<Frame>, is_and: bool) -> (Control, Rc<Frame>) {
        if idx >= exprs.len() {
            return (Control::Return(V::Bool(is_and)), k);
        }
        let ex = ex_at(&exprs, idx);
        if idx + 1 == exprs.len() {
            (Control::Eval(ex, env), k)
        } else if is_and {
            (Control::Eval(ex, env.clone()), Rc::new(Frame::And(exprs, idx + 1, env, k)))
        } else {
            (Control::Eval(ex, env.clone()), Rc::new(Frame::Or(exprs, idx + 1, env, k)))
        }
    }

    fn cond(clauses: Rc<Vec<CondClause>>, idx: usize, env: EnvRef, k: Rc<Frame>) -> (Control, Rc<Frame>) {
        if idx >= clauses.len() {
            return (Control::Return(V::Unspec), k);
        }
        match &clauses[idx].test {
            None => Self::seq(clauses[idx].body.clone(), 0, env, k),
            Some(_) => {
                let test = clauses[idx].test.clone().unwrap();
                (Control::Eval(test, env.clone()), Rc::new(Frame::CondTest(clauses, idx, env, k)))
            }
        }
    }

    fn eval(&mut self, ex: &Rc<Ex>, env: EnvRef, k: Rc<Frame>) -> Result<(Control, Rc<Frame>), Abort> {
        Ok(match &**ex {
            Ex::Const(v) => (Control::Return(v.clone()), k),
            Ex::Var(name) => {
                let loc = self.lookup(name, &env)?;
                let v = loc.borrow().clone();
                if matches!(v, V::Unassigned) {
                    return Err(Abort::Unspecified("variable read before its initialisation"));
                }
                (Control::Return(v), k)
            }
            Ex::Lambda(def) => {
                let c = V::Closure(Rc::new(Closure {
                    def: def.clone(),
                    env: env.unwrap_or_else(|| {
                        Rc::new(Env {
                            vars: RefCell::new(vec![]),
                            parent: None,
                        })
                    }),
                }));
                (Control::Return(c), k)
            }
            Ex::If(c, t, e) => (Control::Eval(c.clone(), env.clone()), Rc::new(Frame::If(t.clone(), e.clone(), env, k))),
            Ex::Set(name, e) => (Control::Eval(e.clone(), env.clone()), Rc::new(Frame::Set(name.clone(), env, k))),
            Ex::Define(name, e) => (Control::Eval(e.clone(), env.clone()), Rc::new(Frame::Define(name.clone(), env, k))),
            Ex::App(f, args) => {
                if args.is_empty() {
                    (Control::Eval(f.clone(), env), Rc::new(Frame::Op(Rc::new(vec![]), k)))
                } else {
                    (
                        Control::Eval(ex_at(args, 0), env.clone()),
                        Rc::new(Frame::Arg(f.clone(), args.clone(), 0, Rc::new(vec![]), env, k)),
                    )
                }
            }
            Ex::Seq(exprs) => Self::seq(exprs.clone(), 0, env, k),
            Ex::And(exprs) => Self::and_or(exprs.clone(), 0, env, k, true),
            Ex::Or(exprs) => Self::and_or(exprs.clone(), 0, env, k, false),
            Ex::When(test, body) => (Control::Eval(test.clone(), env.clone()), Rc::new(Frame::When(body.clone(), false, env, k))),
            Ex::Unless(test, body) => (Control::Eval(test.clone(), env.clone()), Rc::new(Frame::When(body.clone(), true, env, k))),
            Ex::Cond(clauses) => Self::cond(clauses.clone(), 0, env, k),
            Ex::Case(key, clauses) => (Control::Eval(key.clone(), env.clone()), Rc::new(Frame::CaseKey(clauses.clone(), env, k))),
            Ex::Letrec(names, inits, lam) => {
                let vars = names.iter().map(|n| (n.clone(), Rc::new(RefCell::new(V::Unassigned)))).collect();
                let new_env = Rc::new(Env {
                    vars: RefCell::new(vars),
                    parent: env,
                });
                if inits.is_empty() {
                    let body_env = Self::new_frame_env(lam, vec![], Some(new_env))?;
                    Self::enter_body(lam, body_env, k)
                } else {
                    (
                        Control::Eval(ex_at(inits, 0), Some(new_env.clone())),
                        Rc::new(Frame::Letrec(names.clone(), inits.clone(), 0, lam.clone(), new_env, k)),
                    )
                }
            }
            Ex::Delay(e) => {
                let def = Rc::new(LambdaDef {
                    params: vec![],
                    rest: None,
                    body: Rc::new(vec![e.clone()]),
                    internal: vec![],
                });
                let thunk = V::Closure(Rc::new(Closure {
                    def,
                    env: env.unwrap_or_else(|| {
                        Rc::new(Env {
                            vars: RefCell::new(vec![]),
                            parent: None,
                        })
                    }),
                }));
                (
                    Control::Return(V::Promise(Rc::new(PromiseObj {
                        done: RefCell::new(false),
                        payload: RefCell::new(thunk),
                    }))),
                    k,
                )
            }
        })
    }

    fn apply(&mut self, f: V, args: Vec<V>, k: Rc<Frame>) -> Result<(Control, Rc<Frame>), Abort> {
        match f {
            V::Closure(c) => {
                let env = Self::new_frame_env(&c.def, args, Some(c.env.clone()))?;
                Ok(Self::enter_body(&c.def, env, k))
            }
            V::Cont(target) => {
                if args.is_empty() {
                    return Err(Abort::Error("arity", None));
                }
                if args.len() > 1 {
                    return Err(Abort::Unspecified("continuation called with several values"));
                }
                self.cont_invocations += 1;
                if !is_suffix(&target, &k) {
                    self.reentries += 1;
                }
                Ok((Control::Return(args.into_iter().next().unwrap()), target))
            }
            V::Prim(name) => self.apply_prim(name, args, k),
            V::Unspec | V::Unassigned => Err(Abort::Unspecified("call of an unspecified value")),
            _ => Err(Abort::Error("not-procedure", None)),
        }
    }

    fn apply_prim(&mut self, name: &'static str, mut args: Vec<V>, k: Rc<Frame>) -> Result<(Control, Rc<Frame>), Abort> {
        // primitives that need the control state
        match name {
            "apply" => {
                if args.len() < 2 {
                    return Err(Abort::Error("arity", None));
                }
                let last = args.pop().unwrap();
                let f = args.remove(0);
                let tail = last.list_to_vec().ok_or_else(type_err)?;
                args.extend(tail);
                return self.apply(f, args, k);
            }
            "call/cc" | "call-with-current-continuation" => {
                if args.len() != 1 {
                    return Err(Abort::Error("arity", None));
                }
                let f = args.pop().unwrap();
                if !f.is_procedure() {
                    return Err(type_err());
                }
                return self.apply(f, vec![V::Cont(k.clone())], k);
            }
            "eval" => {
                if args.len() != 1 {
                    return Err(Abort::Error("arity", None));
                }
                let datum = args[0].to_datum().ok_or(Abort::Unspecified("eval of a non-datum"))?;
                let ex = compile(&datum).map_err(|_| Abort::Error("syntax", None))?;
                return Ok((Control::Eval(Rc::new(ex), None), k));
            }
            "force" => {
                if args.len() != 1 {
                    return Err(Abort::Error("arity", None));
                }
                return match &args[0] {
                    V::Promise(p) => {
                        if *p.done.borrow() {
                            Ok((Control::Return(p.payload.borrow().clone()), k))
                        } else {
                            let thunk = p.payload.borrow().clone();
                            self.apply(thunk, vec![], Rc::new(Frame::Force(p.clone(), k)))
                        }
                    }
                    // forcing a non-promise: R7RS lets it return the value; the implementation fails
                    _ => Err(Abort::Unspecified("force of a non-promise")),
                };
            }
            _ => {}
        }
        let v = self.prim(name, args)?;
        Ok((Control::Return(v), k))
    }

    fn int(v: &V) -> Result<i128, Abort> {
        match v {
            V::Int(i) => Ok(*i),
            V::Unspec | V::Unassigned => Err(Abort::Unspecified("arithmetic on an unspecified value")),
            _ => Err(type_err()),
        }
    }

    fn check_big(i: i128) -> Result<V, Abort> {
        if i.unsigned_abs() > (1u128 << 100) {
            Err(Abort::Unspecified("integer beyond the modelled range"))
        } else {
            Ok(V::Int(i))
        }
    }

    fn index(v: &V) -> Result<usize, Abort> {
        match v {
            V::Int(i) if *i >= 0 => Ok(*i as usize),
            V::Int(_) => Err(Abort::Error("index", None)),
            V::Unspec | V::Unassigned => Err(Abort::Unspecified("index is unspecified")),
            _ => Err(type_err()),
        }
    }

    fn string(v: &V) -> Result<Rc<StrObj>, Abort> {
        match v {
            V::Str(s) => Ok(s.clone()),
            V::Unspec | V::Unassigned => Err(Abort::Unspecified("string operation on an unspecified value")),
            _ => Err(type_err()),
        }
    }

    fn chr(v: &V) -> Result<char, Abort> {
        match v {
            V::Char(c) => Ok(*c),
            V::Unspec | V::Unassigned => Err(Abort::Unspecified("character operation on an unspecified value")),
            _ => Err(type_err()),
        }
    }

    /// optional [start [end]] arguments of the string procedures: 0 <= start <= end <= len
    fn range(opt: &[V], len: usize) -> Result<(usize, usize), Abort> {
        let start = match opt.first() {
            Some(s) => Self::index(s)?,
            None => 0,
        };
        let end = match opt.get(1) {
            Some(e) => Self::index(e)?,
            None => len,
        };
        if start > end || end > len {
            return Err(Abort::Error("index", None));
        }
        Ok((start, end))
    }

    fn arity(args: &[V], min: usize, max: Option<usize>) -> Result<(), Abort> {
        if args.len() < min || max.map(|m| args.len() > m).unwrap_or(false) {
            Err(Abort::Error("arity", None))
        } else {
            Ok(())
        }
    }

    fn mem(&self, args: &[V], cmp: fn(&V, &V) -> Option<bool>) -> Result<V, Abort> {
        Self::arity(args, 2, Some(2))?;
        let mut cur = args[1].clone();
        loop {
            match cur {
                V::Nil => return Ok(V::Bool(false)),
                V::Pair(ref p) => {
                    match cmp(&p.car.borrow(), &args[0]) {
                        Some(true) => return Ok(cur.clone()),
                        Some(false) => {}
                        None => return Err(Abort::Unspecified("comparison result is unspecified")),
                    }
                    let next = p.cdr.borrow().clone();
                    cur = next;
                }
                _ => return Err(type_err()),
            }
        }
    }

    fn ass(&self, args: &[V], cmp: fn(&V, &V) -> Option<bool>) -> Result<V, Abort> {
        Self::arity(args, 2, Some(2))?;
        let mut cur = args[1].clone();
        loop {
            match cur {
                V::Nil => return Ok(V::Bool(false)),
                V::Pair(ref p) => {
                    let entry = p.car.borrow().clone();
                    match &entry {
                        V::Pair(e) => match cmp(&e.car.borrow(), &args[0]) {
                            Some(true) => return Ok(entry.clone()),
                            Some(false) => {}
                            None => return Err(Abort::Unspecified("comparison result is unspecified")),
                        },
                        // an alist element that is not a pair: an error in R7RS, skipped by the implementation
                        _ => return Err(Abort::Unspecified("alist element is not a pair")),
                    }
                    let next = p.cdr.borrow().clone();
                    cur = next;
                }
                _ => return Err(type_err()),
            }
        }
    }

    fn prim(&mut self, name: &'static str, args: Vec<V>) -> Result<V, Abort> {
        let eq_full = |a: &V, b: &V| equal(a, b, 0);
        Ok(match name {
            "+" => {
                let mut s: i128 = 0;
                for a in &args {
                    s = s.checked_add(Self::int(a)?).ok_or(Abort::Unspecified("overflow"))?;
                }
                Self::check_big(s)?
            }
            "*" => {
                let mut s: i128 = 1;
                for a in &args {
                    s = s.checked_mul(Self::int(a)?).ok_or(Abort::Unspecified("overflow"))?;
                    Self::check_big(s)?;
                }
                V::Int(s)
            }
            "-" => {
                Self::arity(&args, 1, None)?;
                if args.len() == 1 {
                    V::Int(-Self::int(&args[0])?)
                } else {
                    let mut s = Self::int(&args[0])?;
                    for a in &args[1..] {
                        s = s.checked_sub(Self::int(a)?).ok_or(Abort::Unspecified("overflow"))?;
                    }
                    Self::check_big(s)?
                }
            }
            "=" | "<" | ">" | "<=" | ">=" => {
                Self::arity(&args, 1, None)?;
                let mut ok = true;
                // every argument must be a number even after the result is known
                let nums = args.iter().map(Self::int).collect::<Result<Vec<_>, _>>()?;
                for w in nums.windows(2) {
                    let r = match name {
                        "=" => w[0] == w[1],
                        "<" => w[0] < w[1],
                        ">" => w[0] > w[1],
                        "<=" => w[0] <= w[1],
                        _ => w[0] >= w[1],
                    };
                    ok = ok && r;
                }
                V::Bool(ok)
            }
            "add1" => {
                Self::arity(&args, 1, Some(1))?;
                V::Int(Self::int(&args[0])? + 1)
            }
            "sub1" => {
                Self::arity(&args, 1, Some(1))?;
                V::Int(Self::int(&args[0])? - 1)
            }
            "abs" => {
                Self::arity(&args, 1, Some(1))?;
                V::Int(Self::int(&args[0])?.abs())
            }
            "min" | "max" => {
                Self::arity(&args, 1, None)?;
                let nums = args.iter().map(Self::int).collect::<Result<Vec<_>, _>>()?;
                V::Int(if name == "min" { *nums.iter().min().unwrap() } else { *nums.iter().max().unwrap() })
            }
            "zero?" | "even?" | "odd?" | "positive?" | "negative?" => {
                Self::arity(&args, 1, Some(1))?;
                let i = Self::int(&args[0])?;
                V::Bool(match name {
                    "zero?" => i == 0,
                    "even?" => i % 2 == 0,
                    "odd?" => i % 2 != 0,
                    "positive?" => i > 0,
                    _ => i < 0,
                })
            }
            "quotient" | "remainder" | "modulo" => {
                Self::arity(&args, 2, Some(2))?;
                let a = Self::int(&args[0])?;
                let b = Self::int(&args[1])?;
                if b == 0 {
                    return Err(Abort::Error("division", None));
                }
                V::Int(match name {
                    "quotient" => a / b,
                    "remainder" => a % b,
                    _ => a.rem_euclid(b) + if b < 0 && a.rem_euclid(b) != 0 { b } else { 0 },
                })
            }
            "not" => {
                Self::arity(&args, 1, Some(1))?;
                if matches!(args[0], V::Unspec | V::Unassigned) {
                    return Err(Abort::Unspecified("not of an unspecified value"));
                }
                V::Bool(!args[0].is_true())
            }
            "null?" | "pair?" | "symbol?" | "procedure?" | "vector?" | "string?" | "boolean?" | "number?" | "integer?" | "char?" => {
                Self::arity(&args, 1, Some(1))?;
                if matches!(args[0], V::Unspec | V::Unassigned | V::Promise(_)) {
                    return Err(Abort::Unspecified("type predicate on an unspecified value"));
                }
                V::Bool(match name {
                    "null?" => matches!(args[0], V::Nil),
                    "pair?" => matches!(args[0], V::Pair(_)),
                    "symbol?" => matches!(args[0], V::Sym(_)),
                    "procedure?" => args[0].is_procedure(),
                    "vector?" => matches!(args[0], V::Vector(_)),
                    "string?" => matches!(args[0], V::Str(_)),
                    "boolean?" => matches!(args[0], V::Bool(_)),
                    "number?" | "integer?" => matches!(args[0], V::Int(_)),
                    _ => matches!(args[0], V::Char(_)),
                })
            }
            "list?" => {
                Self::arity(&args, 1, Some(1))?;
                V::Bool(args[0].list_to_vec().is_some())
            }
            "eq?" => {
                Self::arity(&args, 2, Some(2))?;
                // eq? on numbers, characters, strings and empty containers is unspecified
                match (&args[0], &args[1]) {
                    (V::Int(_), V::Int(_)) | (V::Char(_), V::Char(_)) => return Ok(V::Unspec),
                    _ => {}
                }
                match eqv(&args[0], &args[1]) {
                    Some(b) => V::Bool(b),
                    None => V::Unspec,
                }
            }
            "eqv?" => {
                Self::arity(&args, 2, Some(2))?;
                match eqv(&args[0], &args[1]) {
                    Some(b) => V::Bool(b),
                    None => V::Unspec,
                }
            }
            "equal?" => {
                Self::arity(&args, 2, Some(2))?;
                match equal(&args[0], &args[1], 0) {
                    Some(b) => V::Bool(b),
                    None => V::Unspec,
                }
            }
            "car" | "cdr" => {
                Self::arity(&args, 1, Some(1))?;
                match &args[0] {
                    V::Pair(p) => {
                        if name == "car" {
                            p.car.borrow().clone()
                        } else {
                            p.cdr.borrow().clone()
                        }
                    }
                    V::Unspec | V::Unassigned => return Err(Abort::Unspecified("car/cdr of an unspecified value")),
                    _ => return Err(type_err()),
                }
            }
            "cadr" | "cddr" | "caar" | "cdar" => {
                Self::arity(&args, 1, Some(1))?;
                let first = if name == "cadr" || name == "cddr" { "cdr" } else { "car" };
                let second = if name == "cadr" || name == "caar" { "car" } else { "cdr" };
                let inner = self.prim(first, args)?;
                self.prim(second, vec![inner])?
            }
            "cons" => {
                Self::arity(&args, 2, Some(2))?;
                V::cons(args[0].clone(), args[1].clone())
            }
            "list" => V::list(args),
            "%list*" => {
                let mut args = args;
                let tail = args.pop().ok_or(Abort::Error("arity", None))?;
                V::list_with_tail(args, tail)
            }
            "%vector" | "vector" => V::vector(args, false),
            "length" => {
                Self::arity(&args, 1, Some(1))?;
                V::Int(args[0].list_to_vec().ok_or_else(type_err)?.len() as i128)
            }
            "append" => {
                if args.is_empty() {
                    return Ok(V::Nil);
                }
                let mut out = args[args.len() - 1].clone();
                for a in args[..args.len() - 1].iter().rev() {
                    let items = a.list_to_vec().ok_or_else(type_err)?;
                    out = V::list_with_tail(items, out);
                }
                out
            }
            "reverse" => {
                Self::arity(&args, 1, Some(1))?;
                let mut items = args[0].list_to_vec().ok_or_else(type_err)?;
                items.reverse();
                V::list(items)
            }
            "list-tail" | "list-ref" => {
                Self::arity(&args, 2, Some(2))?;
                let n = Self::index(&args[1])?;
                let mut cur = args[0].clone();
                for _ in 0..n {
                    match cur {
                        V::Pair(p) => {
                            let next = p.cdr.borrow().clone();
                            cur = next;
                        }
                        _ => return Err(Abort::Error("index", None)),
                    }
                }
                if name == "list-tail" {
                    cur
                } else {
                    match cur {
                        V::Pair(p) => p.car.borrow().clone(),
                        _ => return Err(Abort::Error("index", None)),
                    }
                }
            }
            "memq" | "memv" => self.mem(&args, eqv)?,
            "member" => self.mem(&args, eq_full)?,
            "assq" | "assv" => self.ass(&args, eqv)?,
            "assoc" => self.ass(&args, eq_full)?,
            "make-vector" => {
                Self::arity(&args, 1, Some(2))?;
                let n = Self::index(&args[0])?;
                if n > 1_000_000 {
                    return Err(Abort::Unspecified("huge allocation"));
                }
                let fill = args.get(1).cloned().unwrap_or(V::Unspec);
                V::vector(vec![fill; n], false)
            }
            "vector-ref" => {
                Self::arity(&args, 2, Some(2))?;
                match &args[0] {
                    V::Vector(v) => {
                        let i = Self::index(&args[1])?;
                        v.items.borrow().get(i).cloned().ok_or(Abort::Error("index", None))?
                    }
                    _ => return Err(type_err()),
                }
            }
            "vector-set!" => {
                Self::arity(&args, 3, Some(3))?;
                match &args[0] {
                    V::Vector(v) => {
                        if v.constant {
                            return Err(Abort::Unspecified("mutation of a literal constant"));
                        }
                        let i = Self::index(&args[1])?;
                        let mut items = v.items.borrow_mut();
                        if i >= items.len() {
                            return Err(Abort::Error("index", None));
                        }
                        items[i] = args[2].clone();
                        V::Unspec
                    }
                    _ => return Err(type_err()),
                }
            }
            "vector-fill!" => {
                Self::arity(&args, 2, Some(2))?;
                match &args[0] {
                    V::Vector(v) => {
                        if v.constant && !v.items.borrow().is_empty() {
                            return Err(Abort::Unspecified("mutation of a literal constant"));
                        }
                        for it in v.items.borrow_mut().iter_mut() {
                            *it = args[1].clone();
                        }
                        V::Unspec
                    }
                    _ => return Err(type_err()),
                }
            }
            "vector-copy" => {
                // (vector-copy v [start]); the optional end argument is outside the modelled set
                Self::arity(&args, 1, Some(2))?;
                match &args[0] {
                    V::Vector(v) => {
                        let items = v.items.borrow();
                        let start = match args.get(1) {
                            Some(s) => Self::index(s)?,
                            None => 0,
                        };
                        if start > items.len() {
                            return Err(Abort::Error("index", None));
                        }
                        V::vector(items[start..].to_vec(), false)
                    }
                    _ => return Err(type_err()),
                }
            }
            "vector-copy!" => {
                // (vector-copy! to at from [start [end]])
                Self::arity(&args, 3, Some(5))?;
                match (&args[0], &args[2]) {
                    (V::Vector(to), V::Vector(from)) => {
                        let at = Self::index(&args[1])?;
                        let src: Vec<V> = from.items.borrow().clone();
                        let start = match args.get(3) {
                            Some(s) => Self::index(s)?,
                            None => 0,
                        };
                        let end = match args.get(4) {
                            Some(e) => Self::index(e)?,
                            None => src.len(),
                        };
                        let to_len = to.items.borrow().len();
                        if start > end || end > src.len() || at > to_len || (to_len - at) < (end - start) {
                            return Err(Abort::Error("index", None));
                        }
                        if to.constant && end > start {
                            return Err(Abort::Unspecified("mutation of a literal constant"));
                        }
                        let mut dst = to.items.borrow_mut();
                        for (k, item) in src[start..end].iter().enumerate() {
                            dst[at + k] = item.clone();
                        }
                        V::Unspec
                    }
                    _ => return Err(type_err()),
                }
            }
            "vector-length" => {
                Self::arity(&args, 1, Some(1))?;
                match &args[0] {
                    V::Vector(v) => V::Int(v.items.borrow().len() as i128),
                    _ => return Err(type_err()),
                }
            }
            "vector->list" => {
                Self::arity(&args, 1, Some(1))?;
                match &args[0] {
                    V::Vector(v) => V::list(v.items.borrow().clone()),
                    _ => return Err(type_err()),
                }
            }
            "list->vector" => {
                Self::arity(&args, 1, Some(1))?;
                V::vector(args[0].list_to_vec().ok_or_else(type_err)?, false)
            }
            "set-car!" | "set-cdr!" => {
                Self::arity(&args, 2, Some(2))?;
                match &args[0] {
                    V::Pair(p) => {
                        if p.constant {
                            return Err(Abort::Unspecified("mutation of a literal constant"));
                        }
                        if name == "set-car!" {
                            *p.car.borrow_mut() = args[1].clone();
                        } else {
                            *p.cdr.borrow_mut() = args[1].clone();
                        }
                        V::Unspec
                    }
                    _ => return Err(type_err()),
                }
            }
            "string-ref" => {
                Self::arity(&args, 2, Some(2))?;
                let s = Self::string(&args[0])?;
                let i = Self::index(&args[1])?;
                let c = s.s.borrow().get(i).cloned().ok_or(Abort::Error("index", None))?;
                V::Char(c)
            }
            "string-set!" => {
                Self::arity(&args, 3, Some(3))?;
                let s = Self::string(&args[0])?;
                let i = Self::index(&args[1])?;
                let c = Self::chr(&args[2])?;
                if i >= s.s.borrow().len() {
                    return Err(Abort::Error("index", None));
                }
                if s.constant {
                    return Err(Abort::Unspecified("mutation of a literal constant"));
                }
                s.s.borrow_mut()[i] = c;
                V::Unspec
            }
            "substring" | "string-copy" | "string->list" => {
                if name == "substring" {
                    Self::arity(&args, 3, Some(3))?;
                } else {
                    Self::arity(&args, 1, Some(3))?;
                }
                let s = Self::string(&args[0])?;
                let chars = s.s.borrow();
                let (start, end) = Self::range(&args[1..], chars.len())?;
                let part: Vec<char> = chars[start..end].to_vec();
                if name == "string->list" {
                    V::list(part.into_iter().map(V::Char).collect())
                } else {
                    V::Str(Rc::new(StrObj {
                        s: RefCell::new(part),
                        constant: false,
                    }))
                }
            }
            "string-fill!" => {
                Self::arity(&args, 2, Some(4))?;
                let s = Self::string(&args[0])?;
                let c = Self::chr(&args[1])?;
                let len = s.s.borrow().len();
                let (start, end) = Self::range(&args[2..], len)?;
                if s.constant && end > start {
                    return Err(Abort::Unspecified("mutation of a literal constant"));
                }
                for slot in s.s.borrow_mut()[start..end].iter_mut() {
                    *slot = c;
                }
                V::Unspec
            }
            "string->vector" => {
                Self::arity(&args, 1, Some(1))?;
                let s = Self::string(&args[0])?;
                let items = s.s.borrow().iter().map(|c| V::Char(*c)).collect();
                V::vector(items, false)
            }
            "vector->string" => {
                Self::arity(&args, 1, Some(1))?;
                match &args[0] {
                    V::Vector(v) => {
                        let mut out = vec![];
                        for it in v.items.borrow().iter() {
                            out.push(Self::chr(it)?);
                        }
                        V::Str(Rc::new(StrObj {
                            s: RefCell::new(out),
                            constant: false,
                        }))
                    }
                    _ => return Err(type_err()),
                }
            }
            "list->string" => {
                Self::arity(&args, 1, Some(1))?;
                let items = args[0].list_to_vec().ok_or(Abort::Unspecified("list->string of an improper list"))?;
                let mut out = vec![];
                for it in &items {
                    out.push(Self::chr(it)?);
                }
                V::Str(Rc::new(StrObj {
                    s: RefCell::new(out),
                    constant: false,
                }))
            }
            "string" => {
                let mut out = vec![];
                for it in &args {
                    out.push(Self::chr(it)?);
                }
                V::Str(Rc::new(StrObj {
                    s: RefCell::new(out),
                    constant: false,
                }))
            }
            "make-string" => {
                Self::arity(&args, 1, Some(2))?;
                let n = Self::index(&args[0])?;
                if n > 1_000_000 {
                    return Err(Abort::Unspecified("huge allocation"));
                }
                match args.get(1) {
                    Some(c) => {
                        let c = Self::chr(c)?;
                        V::Str(Rc::new(StrObj {
                            s: RefCell::new(vec![c; n]),
                            constant: false,
                        }))
                    }
                    None => return Err(Abort::Unspecified("make-string without a fill character")),
                }
            }
            "string-append" => {
                let mut out = vec![];
                for it in &args {
                    out.extend(Self::string(it)?.s.borrow().iter().cloned());
                }
                V::Str(Rc::new(StrObj {
                    s: RefCell::new(out),
                    constant: false,
                }))
            }
            "string=?" | "string<?" | "string>?" | "string<=?" | "string>=?" | "string-ci=?" | "string-ci<?" | "string-ci>?"
            | "string-ci<=?" | "string-ci>=?" => {
                Self::arity(&args, 2, None)?;
                let ci = name.contains("-ci");
                let mut strs: Vec<Vec<char>> = vec![];
                for a in &args {
                    let s = Self::string(a)?;
                    let chars: Vec<char> = s.s.borrow().clone();
                    strs.push(if ci { fold_str(&chars) } else { chars });
                }
                let op = name.trim_start_matches("string-ci").trim_start_matches("string");
                let mut ok = true;
                for w in strs.windows(2) {
                    ok = ok
                        && match op {
                            "=?" => w[0] == w[1],
                            "<?" => w[0] < w[1],
                            ">?" => w[0] > w[1],
                            "<=?" => w[0] <= w[1],
                            _ => w[0] >= w[1],
                        };
                }
                V::Bool(ok)
            }
            "char=?" | "char<?" | "char>?" | "char<=?" | "char>=?" | "char-ci=?" | "char-ci<?" | "char-ci>?" | "char-ci<=?"
            | "char-ci>=?" => {
                Self::arity(&args, 2, None)?;
                let ci = name.contains("-ci");
                let mut cs = vec![];
                for a in &args {
                    let c = Self::chr(a)?;
                    cs.push(if ci { fold_char(c) } else { c });
                }
                let op = name.trim_start_matches("char-ci").trim_start_matches("char");
                let mut ok = true;
                for w in cs.windows(2) {
                    ok = ok
                        && match op {
                            "=?" => w[0] == w[1],
                            "<?" => w[0] < w[1],
                            ">?" => w[0] > w[1],
                            "<=?" => w[0] <= w[1],
                            _ => w[0] >= w[1],
                        };
                }
                V::Bool(ok)
            }
            "string-upcase" | "string-downcase" | "string-foldcase" => {
                Self::arity(&args, 1, Some(1))?;
                let s = Self::string(&args[0])?;
                let text: String = s.s.borrow().iter().collect();
                let out: Vec<char> = match name {
                    "string-upcase" => text.to_uppercase().chars().collect(),
                    "string-downcase" => text.to_lowercase().chars().collect(),
                    _ => fold_str(&text.chars().collect::<Vec<char>>()),
                };
                V::Str(Rc::new(StrObj {
                    s: RefCell::new(out),
                    constant: false,
                }))
            }
            "char->integer" => {
                Self::arity(&args, 1, Some(1))?;
                V::Int(Self::chr(&args[0])? as u32 as i128)
            }
            "integer->char" => {
                Self::arity(&args, 1, Some(1))?;
                let i = Self::int(&args[0])?;
                if !(0..=0x10FFFF).contains(&i) {
                    return Err(Abort::Error("scalar", None));
                }
                match char::from_u32(i as u32) {
                    Some(c) => V::Char(c),
                    None => return Err(Abort::Error("scalar", None)),
                }
            }
            "char-upcase" | "char-downcase" | "char-foldcase" => {
                Self::arity(&args, 1, Some(1))?;
                let c = Self::chr(&args[0])?;
                V::Char(match name {
                    "char-upcase" => {
                        let mut it = c.to_uppercase();
                        match (it.next(), it.next()) {
                            (Some(u), None) => u,
                            _ => c,
                        }
                    }
                    "char-downcase" => lower_char(c),
                    _ => fold_char(c),
                })
            }
            "char-alphabetic?" | "char-numeric?" | "char-whitespace?" | "char-upper-case?" | "char-lower-case?" => {
                Self::arity(&args, 1, Some(1))?;
                let c = Self::chr(&args[0])?;
                V::Bool(match name {
                    "char-alphabetic?" => c.is_alphabetic(),
                    "char-numeric?" => c.is_numeric(),
                    "char-whitespace?" => c.is_whitespace(),
                    "char-upper-case?" => c.is_uppercase(),
                    _ => c.is_lowercase(),
                })
            }
            "string-length" => {
                Self::arity(&args, 1, Some(1))?;
                match &args[0] {
                    V::Str(s) => V::Int(s.s.borrow().len() as i128),
                    _ => return Err(type_err()),
                }
            }
            "%inject" => return Err(Abort::Error("injected", None)),
            "error" => {
                Self::arity(&args, 1, None)?;
                return Err(Abort::Error("user", Some(args.iter().map(|a| a.to_dv()).collect())));
            }
            "display" | "write" => {
                Self::arity(&args, 1, Some(1))?;
                self.output.push(OutEvent {
                    write: name == "write",
                    value: args[0].to_dv(),
                });
                V::Unspec
            }
            "newline" => {
                Self::arity(&args, 0, Some(0))?;
                self.output.push(OutEvent {
                    write: false,
                    value: Dv::Char('\n'),
                });
                V::Unspec
            }
            "%any-null?" => {
                // #t if any list is exhausted; an improper argument is an error
                let lists = args[0].list_to_vec().ok_or_else(type_err)?;
                let mut any = false;
                for l in &lists {
                    match l {
                        V::Nil => any = true,
                        V::Pair(_) => {}
                        _ => {
                            if !any {
                                return Err(type_err());
                            }
                        }
                    }
                    if any {
                        break;
                    }
                }
                V::Bool(any)
            }
            "%cars" | "%cdrs" => {
                let lists = args[0].list_to_vec().ok_or_else(type_err)?;
                let mut out = vec![];
                for l in &lists {
                    match l {
                        V::Pair(p) => out.push(if name == "%cars" { p.car.borrow().clone() } else { p.cdr.borrow().clone() }),
                        _ => return Err(type_err()),
                    }
                }
                V::list(out)
            }
            _ => return Err(Abort::Unspecified("primitive outside the modelled set")),
        })
    }
}

impl Default for Machine {
    fn default() -> Self {
        Machine::new()
    }
}

/// Unicode simple case folding (CaseFolding.txt statuses C and S), from a table generated with
/// CPython's unicodedata: a source independent of the Rust tables marwood uses
pub fn fold_char(c: char) -> char {
    use super::casefold_table::SIMPLE;
    match SIMPLE.binary_search_by_key(&(c as u32), |e| e.0) {
        Ok(i) => char::from_u32(SIMPLE[i].1).unwrap_or(c),
        Err(_) => c,
    }
}

/// Unicode full case folding (statuses C and F) of a string
pub fn fold_str(chars: &[char]) -> Vec<char> {
    use super::casefold_table::FULL;
    let mut out = Vec::with_capacity(chars.len());
    for c in chars {
        match FULL.binary_search_by_key(&(*c as u32), |e| e.0) {
            Ok(i) => out.extend(FULL[i].1.iter().filter_map(|u| char::from_u32(*u))),
            Err(_) => out.push(fold_char(*c)),
        }
    }
    out
}

fn lower_char(c: char) -> char {
    let mut it = c.to_lowercase();
    match (it.next(), it.next()) {
        (Some(l), None) => l,
        _ => c,
    }
}

/// is `inner` reachable from `outer` by following `next` links (i.e. still within its extent)?
fn is_suffix(inner: &Rc<Frame>, outer: &Rc<Frame>) -> bool {
    let mut cur = outer.clone();
    let mut guard = 0;
    loop {
        if Rc::ptr_eq(&cur, inner) {
            return true;
        }
        let next = match &*cur {
            Frame::Halt => return false,
            Frame::If(_, _, _, n)
            | Frame::Seq(_, _, _, n)
            | Frame::Define(_, _, n)
            | Frame::Set(_, _, n)
            | Frame::Arg(_, _, _, _, _, n)
            | Frame::Op(_, n)
            | Frame::And(_, _, _, n)
            | Frame::Or(_, _, _, n)
            | Frame::When(_, _, _, n)
            | Frame::CondTest(_, _, _, n)
            | Frame::Arrow(_, n)
            | Frame::CaseKey(_, _, n)
            | Frame::Letrec(_, _, _, _, _, n)
            | Frame::Force(_, n) => n.clone(),
        };
        cur = next;
        guard += 1;
        if guard > 100_000 {
            return false;
        }
    }
}

fn ex_at(v: &Rc<Vec<Rc<Ex>>>, idx: usize) -> Rc<Ex> {
    v[idx].clone()
}
