//! Core abstract syntax of the reference machine and the translation from S-expressions.
//! Derived forms are nodes of their own (semantics written from R7RS 4.2 / 7.3), so that the
//! prelude macros of the implementation are checked against semantics, not against themselves.
use super::value::V;
use crate::sx::Sx;
use std::rc::Rc;

pub type Name = Rc<str>;

pub struct LambdaDef {
    pub params: Vec<Name>,
    pub rest: Option<Name>,
    pub body: Rc<Vec<Rc<Ex>>>,
    /// names bound by internal definitions at the head of the body
    pub internal: Vec<Name>,
}

pub struct CondClause {
    /// None for `else`
    pub test: Option<Rc<Ex>>,
    /// `=>` receiver
    pub arrow: Option<Rc<Ex>>,
    pub body: Rc<Vec<Rc<Ex>>>,
}

pub struct CaseClause {
    /// None for `else`
    pub datums: Option<Vec<V>>,
    pub arrow: Option<Rc<Ex>>,
    pub body: Rc<Vec<Rc<Ex>>>,
}

pub enum Qq {
    Const(V),
    Unquote(Ex),
    /// list elements and the tail (Nil constant for a proper list)
    List(Vec<Qq>, Box<Qq>),
    Vector(Vec<Qq>),
}

pub enum Ex {
    Const(V),
    Var(Name),
    Lambda(Rc<LambdaDef>),
    If(Rc<Ex>, Rc<Ex>, Option<Rc<Ex>>),
    Set(Name, Rc<Ex>),
    Define(Name, Rc<Ex>),
    App(Rc<Ex>, Rc<Vec<Rc<Ex>>>),
    /// (begin e ...) and bodies
    Seq(Rc<Vec<Rc<Ex>>>),
    And(Rc<Vec<Rc<Ex>>>),
    Or(Rc<Vec<Rc<Ex>>>),
    When(Rc<Ex>, Rc<Vec<Rc<Ex>>>),
    Unless(Rc<Ex>, Rc<Vec<Rc<Ex>>>),
    Cond(Rc<Vec<CondClause>>),
    Case(Rc<Ex>, Rc<Vec<CaseClause>>),
    /// names, inits, body; `star` = letrec* (same evaluation order; both evaluate left to right here)
    Letrec(Rc<Vec<Name>>, Rc<Vec<Rc<Ex>>>, Rc<LambdaDef>),
    Delay(Rc<Ex>),
}

#[derive(Debug, Clone)]
pub struct SyntaxError(pub String);

const RESERVED: [&str; 22] = [
    "define", "lambda", "if", "quote", "quasiquote", "unquote", "set!", "let", "let*", "letrec", "letrec*", "begin",
    "cond", "case", "and", "or", "when", "unless", "delay", "else", "=>", "define-syntax",
];

fn name_of(s: &Sx, what: &str) -> Result<Name, SyntaxError> {
    match s {
        Sx::Sym(n) if !RESERVED.contains(&n.as_str()) => Ok(Rc::from(n.as_str())),
        other => Err(SyntaxError(format!("{}: expected a variable, got {}", what, other.text()))),
    }
}

fn err<T>(msg: &str, form: &Sx) -> Result<T, SyntaxError> {
    Err(SyntaxError(format!("{}: {}", msg, form.text())))
}

pub fn compile_body(forms: &[Sx]) -> Result<(Rc<Vec<Rc<Ex>>>, Vec<Name>), SyntaxError> {
    if forms.is_empty() {
        return Err(SyntaxError("empty body".into()));
    }
    let mut internal = vec![];
    let mut head = true;
    let mut out = vec![];
    for f in forms {
        let is_def = f.head_is("define");
        if is_def {
            if !head {
                return Err(SyntaxError(format!("definition after expression in body: {}", f.text())));
            }
            let ex = compile(f)?;
            if let Ex::Define(n, _) = &ex {
                if !internal.contains(n) {
                    internal.push(n.clone());
                }
            }
            out.push(Rc::new(ex));
        } else {
            head = false;
            out.push(Rc::new(compile(f)?));
        }
    }
    Ok((Rc::new(out), internal))
}

fn compile_lambda(formals: &Sx, body: &[Sx]) -> Result<Rc<LambdaDef>, SyntaxError> {
    let (params, rest) = match formals {
        Sx::Sym(_) => (vec![], Some(name_of(formals, "lambda")?)),
        Sx::List(ps) => (ps.iter().map(|p| name_of(p, "lambda")).collect::<Result<Vec<_>, _>>()?, None),
        Sx::Dotted(ps, r) => (
            ps.iter().map(|p| name_of(p, "lambda")).collect::<Result<Vec<_>, _>>()?,
            Some(name_of(r, "lambda")?),
        ),
        other => return err("bad formals", other),
    };
    let (body, internal) = compile_body(body)?;
    Ok(Rc::new(LambdaDef {
        params,
        rest,
        body,
        internal,
    }))
}

fn compile_seq(forms: &[Sx]) -> Result<Rc<Vec<Rc<Ex>>>, SyntaxError> {
    Ok(Rc::new(forms.iter().map(|f| compile(f).map(Rc::new)).collect::<Result<Vec<_>, _>>()?))
}

fn bindings_of(b: &Sx, form: &Sx) -> Result<Vec<(Name, Sx)>, SyntaxError> {
    let items = match b {
        Sx::List(v) => v,
        _ => return err("bad bindings", form),
    };
    let mut out = vec![];
    for it in items {
        match it {
            Sx::List(pair) if pair.len() == 2 => out.push((name_of(&pair[0], "binding")?, pair[1].clone())),
            _ => return err("bad binding", form),
        }
    }
    Ok(out)
}

fn compile_qq(t: &Sx, depth: usize) -> Result<Qq, SyntaxError> {
    match t {
        Sx::List(items) if items.len() == 2 && items[0].is_sym("unquote") => {
            if depth == 0 {
                Ok(Qq::Unquote(compile(&items[1])?))
            } else {
                Ok(Qq::List(
                    vec![Qq::Const(V::from_datum(&items[0], true)), compile_qq(&items[1], depth - 1)?],
                    Box::new(Qq::Const(V::Nil)),
                ))
            }
        }
        Sx::List(items) if items.len() == 2 && items[0].is_sym("quasiquote") => Ok(Qq::List(
            vec![Qq::Const(V::from_datum(&items[0], true)), compile_qq(&items[1], depth + 1)?],
            Box::new(Qq::Const(V::Nil)),
        )),
        Sx::List(items) => {
            // (a . ,b) is read as (a unquote b): the last two elements are the tail form
            let n = items.len();
            if n >= 3 && (items[n - 2].is_sym("unquote") || items[n - 2].is_sym("quasiquote")) {
                let tail = Sx::List(items[n - 2..].to_vec());
                if items[..n - 2].iter().any(|i| i.is_sym("unquote")) {
                    return err("unquote in an unspecified position", t);
                }
                return Ok(Qq::List(
                    items[..n - 2].iter().map(|i| compile_qq(i, depth)).collect::<Result<Vec<_>, _>>()?,
                    Box::new(compile_qq(&tail, depth)?),
                ));
            }
            if items.iter().any(|i| i.is_sym("unquote")) {
                // unquote elsewhere in a template: R7RS leaves the behaviour open
                return err("unquote in an unspecified position", t);
            }
            Ok(Qq::List(
                items.iter().map(|i| compile_qq(i, depth)).collect::<Result<Vec<_>, _>>()?,
                Box::new(Qq::Const(V::Nil)),
            ))
        }
        Sx::Dotted(items, tail) => match &**tail {
            Sx::List(t) => {
                let mut all = items.clone();
                all.extend(t.iter().cloned());
                compile_qq(&Sx::List(all), depth)
            }
            Sx::Dotted(t, tt) => {
                let mut all = items.clone();
                all.extend(t.iter().cloned());
                compile_qq(&Sx::Dotted(all, tt.clone()), depth)
            }
            _ => Ok(Qq::List(
                items.iter().map(|i| compile_qq(i, depth)).collect::<Result<Vec<_>, _>>()?,
                Box::new(compile_qq(tail, depth)?),
            )),
        },
        Sx::Vector(items) => Ok(Qq::Vector(items.iter().map(|i| compile_qq(i, depth)).collect::<Result<Vec<_>, _>>()?)),
        atom => Ok(Qq::Const(V::from_datum(atom, true))),
    }
}

fn all_const(q: &Qq) -> bool {
    match q {
        Qq::Const(_) => true,
        Qq::Unquote(_) => false,
        Qq::List(items, tail) => items.iter().all(all_const) && all_const(tail),
        Qq::Vector(items) => items.iter().all(all_const),
    }
}

fn qq_const_value(q: &Qq) -> V {
    match q {
        Qq::Const(v) => v.clone(),
        Qq::Unquote(_) => unreachable!(),
        Qq::List(items, tail) => {
            let mut out = qq_const_value(tail);
            for it in items.iter().rev() {
                out = V::Pair(Rc::new(super::value::PairObj {
                    car: std::cell::RefCell::new(qq_const_value(it)),
                    cdr: std::cell::RefCell::new(out),
                    constant: true,
                }));
            }
            out
        }
        Qq::Vector(items) => V::vector(items.iter().map(qq_const_value).collect(), true),
    }
}

/// quasiquote as calls of internal constructors, operands evaluated left to right;
/// constant sub-templates stay constants
pub fn lower_qq(q: Qq) -> Ex {
    if all_const(&q) {
        return Ex::Const(qq_const_value(&q));
    }
    match q {
        Qq::Const(v) => Ex::Const(v),
        Qq::Unquote(e) => e,
        Qq::List(items, tail) => {
            let mut args: Vec<Rc<Ex>> = items.into_iter().map(|i| Rc::new(lower_qq(i))).collect();
            args.push(Rc::new(lower_qq(*tail)));
            Ex::App(Rc::new(Ex::Const(V::Prim("%list*"))), Rc::new(args))
        }
        Qq::Vector(items) => {
            let args: Vec<Rc<Ex>> = items.into_iter().map(|i| Rc::new(lower_qq(i))).collect();
            Ex::App(Rc::new(Ex::Const(V::Prim("%vector"))), Rc::new(args))
        }
    }
}

pub fn compile(form: &Sx) -> Result<Ex, SyntaxError> {
    match form {
        Sx::Int(_) | Sx::Bool(_) | Sx::Char(_) | Sx::Str(_) | Sx::Vector(_) => Ok(Ex::Const(V::from_datum(form, true))),
        Sx::Sym(s) => {
            if RESERVED.contains(&s.as_str()) {
                return err("keyword used as a variable", form);
            }
            Ok(Ex::Var(Rc::from(s.as_str())))
        }
        Sx::Dotted(_, _) => err("improper list as expression", form),
        Sx::List(items) => {
            if items.is_empty() {
                return err("unquoted ()", form);
            }
            let head = items[0].as_sym().unwrap_or("");
            let args = &items[1..];
            match head {
                "quote" => {
                    if args.len() != 1 {
                        return err("bad quote", form);
                    }
                    Ok(Ex::Const(V::from_datum(&args[0], true)))
                }
                "quasiquote" => {
                    if args.len() != 1 {
                        return err("bad quasiquote", form);
                    }
                    Ok(lower_qq(compile_qq(&args[0], 0)?))
                }
                "unquote" => err("unquote outside quasiquote", form),
                "if" => match args.len() {
                    2 => Ok(Ex::If(Rc::new(compile(&args[0])?), Rc::new(compile(&args[1])?), None)),
                    3 => Ok(Ex::If(
                        Rc::new(compile(&args[0])?),
                        Rc::new(compile(&args[1])?),
                        Some(Rc::new(compile(&args[2])?)),
                    )),
                    _ => err("bad if", form),
                },
                "lambda" => {
                    if args.len() < 2 {
                        return err("bad lambda", form);
                    }
                    Ok(Ex::Lambda(compile_lambda(&args[0], &args[1..])?))
                }
                "define" => {
                    if args.len() < 2 {
                        return err("bad define", form);
                    }
                    match &args[0] {
                        Sx::Sym(_) => {
                            if args.len() != 2 {
                                return err("bad define", form);
                            }
                            Ok(Ex::Define(name_of(&args[0], "define")?, Rc::new(compile(&args[1])?)))
                        }
                        Sx::List(h) if !h.is_empty() => {
                            let name = name_of(&h[0], "define")?;
                            let formals = Sx::List(h[1..].to_vec());
                            Ok(Ex::Define(name, Rc::new(Ex::Lambda(compile_lambda(&formals, &args[1..])?))))
                        }
                        Sx::Dotted(h, r) if !h.is_empty() => {
                            let name = name_of(&h[0], "define")?;
                            let formals = if h.len() == 1 {
                                (**r).clone()
                            } else {
                                Sx::Dotted(h[1..].to_vec(), r.clone())
                            };
                            Ok(Ex::Define(name, Rc::new(Ex::Lambda(compile_lambda(&formals, &args[1..])?))))
                        }
                        _ => err("bad define", form),
                    }
                }
                "set!" => {
                    if args.len() != 2 {
                        return err("bad set!", form);
                    }
                    Ok(Ex::Set(name_of(&args[0], "set!")?, Rc::new(compile(&args[1])?)))
                }
                "begin" => {
                    if args.is_empty() {
                        return err("empty begin", form);
                    }
                    if args.iter().any(|a| a.head_is("define")) {
                        // the implementation's begin is a procedure body; R7RS splices at top level:
                        // outside the generated language
                        return err("define inside begin", form);
                    }
                    Ok(Ex::Seq(compile_seq(args)?))
                }
                "let" => {
                    if args.len() < 2 {
                        return err("bad let", form);
                    }
                    if let Sx::Sym(_) = &args[0] {
                        // named let
                        if args.len() < 3 {
                            return err("bad named let", form);
                        }
                        let tag = name_of(&args[0], "let")?;
                        let bs = bindings_of(&args[1], form)?;
                        let formals = Sx::List(bs.iter().map(|(n, _)| Sx::Sym(n.to_string())).collect());
                        let lam = compile_lambda(&formals, &args[2..])?;
                        let inits = bs.iter().map(|(_, e)| compile(e).map(Rc::new)).collect::<Result<Vec<_>, _>>()?;
                        // ((letrec ((tag (lambda ...))) tag) init ...)
                        let inner = LambdaDef {
                            params: vec![],
                            rest: None,
                            body: Rc::new(vec![Rc::new(Ex::Var(tag.clone()))]),
                            internal: vec![],
                        };
                        let letrec = Ex::Letrec(Rc::new(vec![tag]), Rc::new(vec![Rc::new(Ex::Lambda(lam))]), Rc::new(inner));
                        return Ok(Ex::App(Rc::new(letrec), Rc::new(inits)));
                    }
                    let bs = bindings_of(&args[0], form)?;
                    let formals = Sx::List(bs.iter().map(|(n, _)| Sx::Sym(n.to_string())).collect());
                    let lam = compile_lambda(&formals, &args[1..])?;
                    let inits = bs.iter().map(|(_, e)| compile(e).map(Rc::new)).collect::<Result<Vec<_>, _>>()?;
                    Ok(Ex::App(Rc::new(Ex::Lambda(lam)), Rc::new(inits)))
                }
                "let*" => {
                    if args.len() < 2 {
                        return err("bad let*", form);
                    }
                    let bs = bindings_of(&args[0], form)?;
                    if bs.len() <= 1 {
                        let mut v = vec![Sx::Sym("let".into()), args[0].clone()];
                        v.extend_from_slice(&args[1..]);
                        return compile(&Sx::List(v));
                    }
                    let first = Sx::List(vec![Sx::List(vec![Sx::Sym(bs[0].0.to_string()), bs[0].1.clone()])]);
                    let rest_b = Sx::List(
                        bs[1..]
                            .iter()
                            .map(|(n, e)| Sx::List(vec![Sx::Sym(n.to_string()), e.clone()]))
                            .collect(),
                    );
                    let mut inner = vec![Sx::Sym("let*".into()), rest_b];
                    inner.extend_from_slice(&args[1..]);
                    compile(&Sx::List(vec![Sx::Sym("let".into()), first, Sx::List(inner)]))
                }
                "letrec" | "letrec*" => {
                    if args.len() < 2 {
                        return err("bad letrec", form);
                    }
                    let bs = bindings_of(&args[0], form)?;
                    let names: Vec<Name> = bs.iter().map(|(n, _)| n.clone()).collect();
                    let inits = bs.iter().map(|(_, e)| compile(e).map(Rc::new)).collect::<Result<Vec<_>, _>>()?;
                    let (body, internal) = compile_body(&args[1..])?;
                    let lam = LambdaDef {
                        params: vec![],
                        rest: None,
                        body,
                        internal,
                    };
                    Ok(Ex::Letrec(Rc::new(names), Rc::new(inits), Rc::new(lam)))
                }
                "and" => Ok(Ex::And(compile_seq(args)?)),
                "or" => Ok(Ex::Or(compile_seq(args)?)),
                "when" | "unless" => {
                    if args.len() < 2 {
                        return err("bad when/unless", form);
                    }
                    let test = Rc::new(compile(&args[0])?);
                    let body = compile_seq(&args[1..])?;
                    Ok(if head == "when" { Ex::When(test, body) } else { Ex::Unless(test, body) })
                }
                "cond" => {
                    if args.is_empty() {
                        return err("bad cond", form);
                    }
                    let mut clauses = vec![];
                    for (i, c) in args.iter().enumerate() {
                        let items = match c {
                            Sx::List(v) if !v.is_empty() => v,
                            _ => return err("bad cond clause", form),
                        };
                        if items[0].is_sym("else") {
                            if i + 1 != args.len() || items.len() < 2 {
                                return err("bad else clause", form);
                            }
                            clauses.push(CondClause {
                                test: None,
                                arrow: None,
                                body: compile_seq(&items[1..])?,
                            });
                        } else if items.len() == 3 && items[1].is_sym("=>") {
                            clauses.push(CondClause {
                                test: Some(Rc::new(compile(&items[0])?)),
                                arrow: Some(Rc::new(compile(&items[2])?)),
                                body: Rc::new(vec![]),
                            });
                        } else {
                            clauses.push(CondClause {
                                test: Some(Rc::new(compile(&items[0])?)),
                                arrow: None,
                                body: compile_seq(&items[1..])?,
                            });
                        }
                    }
                    Ok(Ex::Cond(Rc::new(clauses)))
                }
                "case" => {
                    if args.len() < 2 {
                        return err("bad case", form);
                    }
                    let key = Rc::new(compile(&args[0])?);
                    let mut clauses = vec![];
                    for (i, c) in args[1..].iter().enumerate() {
                        let items = match c {
                            Sx::List(v) if v.len() >= 2 => v,
                            _ => return err("bad case clause", form),
                        };
                        let datums = if items[0].is_sym("else") {
                            if i + 2 != args.len() {
                                return err("bad else clause", form);
                            }
                            None
                        } else {
                            match &items[0] {
                                Sx::List(ds) => Some(ds.iter().map(|d| V::from_datum(d, true)).collect()),
                                _ => return err("bad case datums", form),
                            }
                        };
                        if items.len() == 3 && items[1].is_sym("=>") {
                            clauses.push(CaseClause {
                                datums,
                                arrow: Some(Rc::new(compile(&items[2])?)),
                                body: Rc::new(vec![]),
                            });
                        } else {
                            clauses.push(CaseClause {
                                datums,
                                arrow: None,
                                body: compile_seq(&items[1..])?,
                            });
                        }
                    }
                    Ok(Ex::Case(key, Rc::new(clauses)))
                }
                "delay" => {
                    if args.len() != 1 {
                        return err("bad delay", form);
                    }
                    Ok(Ex::Delay(Rc::new(compile(&args[0])?)))
                }
                "define-syntax" | "else" | "=>" => err("unsupported in the reference language", form),
                _ => {
                    let f = compile(&items[0])?;
                    let a = args.iter().map(|x| compile(x).map(Rc::new)).collect::<Result<Vec<_>, _>>()?;
                    Ok(Ex::App(Rc::new(f), Rc::new(a)))
                }
            }
        }
    }
}
