//! Values of the reference machine. Objects have identity (Rc), symbols are their names.
use crate::kernel::Dv;
use crate::sx::Sx;
use std::cell::RefCell;
use std::rc::Rc;

pub type Loc = Rc<RefCell<V>>;

pub struct PairObj {
    pub car: RefCell<V>,
    pub cdr: RefCell<V>,
    /// part of a literal constant: mutating it is an error in R7RS
    pub constant: bool,
}

pub struct VecObj {
    pub items: RefCell<Vec<V>>,
    pub constant: bool,
}

pub struct StrObj {
    pub s: RefCell<Vec<char>>,
    pub constant: bool,
}

pub struct PromiseObj {
    pub done: RefCell<bool>,
    /// value when done, thunk otherwise
    pub payload: RefCell<V>,
}

pub struct Closure {
    pub def: Rc<super::ast::LambdaDef>,
    pub env: Rc<super::machine::Env>,
}

#[derive(Clone)]
pub enum V {
    Int(i128),
    Bool(bool),
    Char(char),
    Sym(Rc<str>),
    Nil,
    Str(Rc<StrObj>),
    Pair(Rc<PairObj>),
    Vector(Rc<VecObj>),
    Closure(Rc<Closure>),
    Prim(&'static str),
    Cont(Rc<super::machine::Frame>),
    Promise(Rc<PromiseObj>),
    /// a value R7RS leaves unspecified
    Unspec,
    /// variable defined but not yet initialised (letrec / internal define)
    Unassigned,
}

impl V {
    pub fn cons(a: V, d: V) -> V {
        V::Pair(Rc::new(PairObj {
            car: RefCell::new(a),
            cdr: RefCell::new(d),
            constant: false,
        }))
    }
    pub fn list(items: Vec<V>) -> V {
        V::list_with_tail(items, V::Nil)
    }
    pub fn list_with_tail(items: Vec<V>, tail: V) -> V {
        let mut out = tail;
        for it in items.into_iter().rev() {
            out = V::cons(it, out);
        }
        out
    }
    pub fn string(s: &str, constant: bool) -> V {
        V::Str(Rc::new(StrObj {
            s: RefCell::new(s.chars().collect()),
            constant,
        }))
    }
    pub fn vector(items: Vec<V>, constant: bool) -> V {
        V::Vector(Rc::new(VecObj {
            items: RefCell::new(items),
            constant,
        }))
    }
    pub fn is_true(&self) -> bool {
        !matches!(self, V::Bool(false))
    }
    pub fn is_procedure(&self) -> bool {
        matches!(self, V::Closure(_) | V::Prim(_) | V::Cont(_))
    }
    pub fn type_name(&self) -> &'static str {
        match self {
            V::Int(_) => "int",
            V::Bool(_) => "bool",
            V::Char(_) => "char",
            V::Sym(_) => "symbol",
            V::Nil => "nil",
            V::Str(_) => "string",
            V::Pair(_) => "pair",
            V::Vector(_) => "vector",
            V::Closure(_) | V::Prim(_) => "procedure",
            V::Cont(_) => "continuation",
            V::Promise(_) => "promise",
            V::Unspec => "unspecified",
            V::Unassigned => "unassigned",
        }
    }

    /// proper list to vector of elements; None if improper (bounded against cycles)
    pub fn list_to_vec(&self) -> Option<Vec<V>> {
        let mut out = vec![];
        let mut cur = self.clone();
        let mut guard = 0;
        loop {
            match cur {
                V::Nil => return Some(out),
                V::Pair(p) => {
                    out.push(p.car.borrow().clone());
                    let next = p.cdr.borrow().clone();
                    cur = next;
                }
                _ => return None,
            }
            guard += 1;
            if guard > 10_000_000 {
                return None;
            }
        }
    }

    /// literal constant from a datum
    pub fn from_datum(d: &Sx, constant: bool) -> V {
        match d {
            Sx::Int(i) => V::Int(*i as i128),
            Sx::Bool(b) => V::Bool(*b),
            Sx::Char(c) => V::Char(*c),
            Sx::Str(s) => V::string(s, constant),
            Sx::Sym(s) => V::Sym(Rc::from(s.as_str())),
            Sx::List(items) => {
                let mut out = V::Nil;
                for it in items.iter().rev() {
                    out = V::Pair(Rc::new(PairObj {
                        car: RefCell::new(V::from_datum(it, constant)),
                        cdr: RefCell::new(out),
                        constant,
                    }));
                }
                out
            }
            Sx::Dotted(items, tail) => {
                let mut out = V::from_datum(tail, constant);
                for it in items.iter().rev() {
                    out = V::Pair(Rc::new(PairObj {
                        car: RefCell::new(V::from_datum(it, constant)),
                        cdr: RefCell::new(out),
                        constant,
                    }));
                }
                out
            }
            Sx::Vector(items) => V::vector(items.iter().map(|x| V::from_datum(x, constant)).collect(), constant),
        }
    }

    /// datum for `eval`; None if the value contains something that is not a datum
    pub fn to_datum(&self) -> Option<Sx> {
        Some(match self {
            V::Int(i) => Sx::Int(i64::try_from(*i).ok()?),
            V::Bool(b) => Sx::Bool(*b),
            V::Char(c) => Sx::Char(*c),
            V::Sym(s) => Sx::Sym(s.to_string()),
            V::Nil => Sx::List(vec![]),
            V::Str(s) => Sx::Str(s.s.borrow().iter().collect()),
            V::Pair(_) => {
                let mut items = vec![];
                let mut cur = self.clone();
                let mut guard = 0;
                loop {
                    match cur {
                        V::Pair(p) => {
                            items.push(p.car.borrow().to_datum()?);
                            let next = p.cdr.borrow().clone();
                            cur = next;
                        }
                        V::Nil => return Some(Sx::List(items)),
                        other => return Some(Sx::Dotted(items, Box::new(other.to_datum()?))),
                    }
                    guard += 1;
                    if guard > 1_000_000 {
                        return None;
                    }
                }
            }
            V::Vector(v) => Sx::Vector(v.items.borrow().iter().map(|x| x.to_datum()).collect::<Option<Vec<_>>>()?),
            _ => return None,
        })
    }

    /// observation form (what marwood's result is compared with)
    pub fn to_dv(&self) -> Dv {
        self.to_dv_depth(0)
    }

    fn to_dv_depth(&self, depth: usize) -> Dv {
        if depth > 200 {
            return Dv::Wild;
        }
        match self {
            V::Int(i) => Dv::Int(*i),
            V::Bool(b) => Dv::Bool(*b),
            V::Char(c) => Dv::Char(*c),
            V::Sym(s) => Dv::Sym(s.to_string()),
            V::Nil => Dv::Nil,
            V::Str(s) => Dv::Str(s.s.borrow().iter().collect()),
            V::Pair(_) => {
                let mut items = vec![];
                let mut cur = self.clone();
                let mut guard = 0;
                loop {
                    match cur {
                        V::Pair(p) => {
                            items.push(p.car.borrow().to_dv_depth(depth + 1));
                            let next = p.cdr.borrow().clone();
                            cur = next;
                        }
                        other => {
                            let tail = other.to_dv_depth(depth + 1);
                            return Dv::list_with_tail(items, tail);
                        }
                    }
                    guard += 1;
                    if guard > 1_000_000 {
                        return Dv::Wild;
                    }
                }
            }
            V::Vector(v) => Dv::Vector(v.items.borrow().iter().map(|x| x.to_dv_depth(depth + 1)).collect()),
            V::Closure(_) | V::Prim(_) => Dv::Proc,
            V::Cont(_) => Dv::Cont,
            // the representation of a promise is not specified
            V::Promise(_) => Dv::Wild,
            V::Unspec | V::Unassigned => Dv::Wild,
        }
    }
}

pub fn eqv(a: &V, b: &V) -> Option<bool> {
    Some(match (a, b) {
        (V::Int(x), V::Int(y)) => x == y,
        (V::Bool(x), V::Bool(y)) => x == y,
        (V::Char(x), V::Char(y)) => x == y,
        (V::Sym(x), V::Sym(y)) => x == y,
        (V::Nil, V::Nil) => true,
        (V::Pair(x), V::Pair(y)) => Rc::ptr_eq(x, y),
        (V::Vector(x), V::Vector(y)) => {
            // the empty vector may or may not be unique
            if x.items.borrow().is_empty() && y.items.borrow().is_empty() {
                return None;
            }
            Rc::ptr_eq(x, y)
        }
        (V::Str(x), V::Str(y)) => {
            if x.s.borrow().is_empty() && y.s.borrow().is_empty() {
                return None;
            }
            Rc::ptr_eq(x, y)
        }
        (V::Closure(x), V::Closure(y)) => {
            if Rc::ptr_eq(x, y) {
                true
            } else {
                return None;
            }
        }
        (V::Prim(x), V::Prim(y)) => x == y,
        (V::Cont(x), V::Cont(y)) => Rc::ptr_eq(x, y),
        (V::Promise(x), V::Promise(y)) => Rc::ptr_eq(x, y),
        (V::Unspec, _) | (_, V::Unspec) | (V::Unassigned, _) | (_, V::Unassigned) => return None,
        _ => false,
    })
}

/// structural equality; None when it would depend on something unspecified
pub fn equal(a: &V, b: &V, depth: usize) -> Option<bool> {
    if depth > 100_000 {
        return None;
    }
    match (a, b) {
        (V::Pair(_), V::Pair(_)) => {
            let mut x = a.clone();
            let mut y = b.clone();
            let mut guard = 0;
            loop {
                match (&x, &y) {
                    (V::Pair(p), V::Pair(q)) => {
                        if Rc::ptr_eq(p, q) {
                            return Some(true);
                        }
                        if !equal(&p.car.borrow(), &q.car.borrow(), depth + 1)? {
                            return Some(false);
                        }
                        let nx = p.cdr.borrow().clone();
                        let ny = q.cdr.borrow().clone();
                        x = nx;
                        y = ny;
                    }
                    _ => return equal(&x, &y, depth + 1),
                }
                guard += 1;
                if guard > 1_000_000 {
                    return None;
                }
            }
        }
        (V::Vector(x), V::Vector(y)) => {
            let x = x.items.borrow();
            let y = y.items.borrow();
            if x.len() != y.len() {
                return Some(false);
            }
            for (p, q) in x.iter().zip(y.iter()) {
                if !equal(p, q, depth + 1)? {
                    return Some(false);
                }
            }
            Some(true)
        }
        (V::Str(x), V::Str(y)) => Some(*x.s.borrow() == *y.s.borrow()),
        _ => eqv(a, b),
    }
}
